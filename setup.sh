#!/bin/sh
# Run once after a fresh restore (offline).  Builds the bounded stand-in crate against /repo and
# warms the Verus installation (first run unpacks vstd metadata).
set -e
cd "$(dirname "$0")"
export CARGO_NET_OFFLINE=true
mkdir -p .gen .cache evidence replays
if [ -d bounded ]; then
  (cd bounded && cargo build --release --offline 2>&1 | tail -3) || true
fi
cat > .gen/_warm.rs <<'EOF'
use vstd::prelude::*;
verus! { proof fn warm() ensures 1 + 1 == 2int {} }
fn main() {}
EOF
verus .gen/_warm.rs >/dev/null 2>&1 || true
echo setup done
