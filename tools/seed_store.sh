#!/bin/bash
# usage: tools/seed_store.sh <worktree-id> <seed-name> <property> "<needs>"
id=$1; name=$2; prop=$3; needs=$4
d=/verif/seeded/$name; mkdir -p $d
git -C /tmp/seed/$id diff > $d/patch.diff
cp /tmp/seed/$id-out/demo.rs $d/demo.rs
cp /tmp/seed/$id-out/notes.md $d/notes.md 2>/dev/null
python3 - "$name" "$prop" "$needs" <<'PY'
import json,sys
name,prop,needs=sys.argv[1:4]
json.dump({"seed":name,"breaks_property":prop,"needs_to_manifest":needs,
 "confirmed":"tools/seed_confirm.sh in a scratch worktree: cargo test --offline --lib = 163 passed with the change; demo exits 101 with the change and 0 without",
 "author":"independent sub-agent given only the property text and a scratch worktree"},open('/verif/seeded/%s/meta.json'%name,'w'),indent=1)
PY
echo stored $d
