#!/usr/bin/env python3
"""Regenerate /verif/MANIFEST.json from vlib/registry.py (single source of truth)."""
import json, os, sys
VERIF = os.path.dirname(os.path.dirname(os.path.abspath(__file__)))
sys.path.insert(0, VERIF)
from vlib import registry

props = [json.loads(l) for l in open(os.path.join(VERIF, 'properties.jsonl'))]
checks, na = [], []
for p in props:
    pid = p['id']
    if pid in registry.PROPS:
        s = registry.PROPS[pid]
        checks.append({
            'property_id': pid,
            'quick_cmd': './check %s --tier quick' % pid,
            'thorough_cmd': './check %s --tier thorough' % pid,
            'evidence_file': 'evidence/%s.json' % pid,
            'replay_cmd_template': './check %s --replay {path}' % pid,
            'engine': s.get('engine', 'verus+kani'),
            'level_claimed': {'category': s.get('level', 'proof'), 'text': s['level_text'], 'design_ref': s.get('design_ref', 'DESIGN.md section 5 ' + pid)},
            'level_note': s['level_note'],
            'technique': s.get('technique', 'contract-based deductive verification (Verus on mechanically extracted real functions; Kani on the real crate); bounded executed contracts for builders, labelled bounded'),
        })
    else:
        na.append({'property_id': pid, 'reason': registry.NOT_APPLICABLE.get(pid, 'no check built yet for this property; nothing is claimed')})
m = {
    'version': 1,
    'setup_cmd': './setup.sh',
    'hooks': {
        'guard': 'aho_corasick_verif',
        'enable': 'RUSTFLAGS="--cfg aho_corasick_verif" (set by /verif/bounded/.cargo/config.toml when the bounded crate builds /repo as a path dependency)',
        'baseline_off_cmd': 'cd /repo && cargo test --workspace --no-fail-fast --offline',
        'source_commits': registry.HOOK_COMMITS,
        'add_only': True,
    },
    'engines': registry.ENGINES,
    'checks': checks,
    'not_applicable': na,
    'notes': registry.NOTES,
}
json.dump(m, open(os.path.join(VERIF, 'MANIFEST.json'), 'w'), indent=1)
print('MANIFEST.json: %d checks, %d not_applicable' % (len(checks), len(na)))
