#!/bin/bash
# usage: tools/benign_eval.sh <worktree-id> <name> — store a behaviour-preserving refactoring from
# /tmp/seed/<id> under seeded-benign/<name>, apply it to /repo, run all 20 quick checks (none may
# exit 1), undo it.
id=$1; name=$2
d=/verif/seeded-benign/$name; mkdir -p $d
git -C /tmp/seed/$id diff > $d/patch.diff
cp /tmp/seed/$id-out/notes.md $d/notes.md 2>/dev/null
cd /repo && git apply $d/patch.diff || { echo "patch does not apply"; exit 2; }
cd /verif
: > $d/verdicts.txt
for p in $(python3 -c "import json;print(' '.join(c['property_id'] for c in json.load(open('MANIFEST.json'))['checks']))"); do
  out=$(./check $p 2>&1); e=$?
  line=$(echo "$out" | grep -E '^VIOLATION|^OK|^UNDECIDED' | head -1 | cut -c1-200)
  echo "$p exit=$e :: $line" | tee -a $d/verdicts.txt
  if [ $e -eq 1 ]; then echo "$out" | grep -E "^FAILED-OBLIGATION" | head -3 | cut -c1-500 | tee -a $d/verdicts.txt; fi
done
git -C /repo checkout -- . ; git -C /repo status --short
