#!/usr/bin/env python3
"""usage: tools/mk_seed_prompts.py <round> <prop>... — write the white-box seeding prompts to /tmp/seedprompts/<prop>.txt
(the agents get the property text, the names of earlier seeds for it, and a prose summary of the coverage;
they never read /verif)."""
import json, os, sys, re
rnd = sys.argv[1]
BB = '--bb' in sys.argv
if BB:
    sys.argv.remove('--bb')
props = {json.loads(l)['id']: l.strip() for l in open('/verif/properties.jsonl')}
names = {}
for d in sorted(os.listdir('/verif/seeded')):
    m = re.match(r'(C\d\d)-(.*)', d)
    if m and os.path.isdir('/verif/seeded/' + d):
        names.setdefault(m.group(1), []).append(m.group(2))
COVER = open('/verif/tools/seed_coverage.txt').read()
T = open('/verif/tools/seed_prompt.tpl').read()
os.makedirs('/tmp/seedprompts', exist_ok=True)
for p in sys.argv[2:]:
    wid = 'R%s-%s' % (rnd, p)
    if BB:
        # black box: the property text and a scratch worktree only
        T2 = re.sub(r'@COVER@.*?\n\n', '', T, flags=re.S)
    else:
        T2 = T
    t = T2.replace('@WID@', wid).replace('@PROP@', props[p]).replace('@NAMES@', ', '.join(names.get(p, [])) or '(none)').replace('@COVER@', COVER)
    open('/tmp/seedprompts/%s.txt' % p, 'w').write(t)
    print(wid)
