#!/bin/bash
# usage: tools/mut.sh <file-in-repo> <sed-expr> <unit>...   — apply a mutant, run units, revert
f=$1; expr=$2; shift 2
cp /repo/$f /tmp/mut.bak
sed -i "$expr" /repo/$f
if cmp -s /repo/$f /tmp/mut.bak; then echo "MUTANT DID NOT APPLY"; fi
for u in "$@"; do python3 /verif/vrun.py $u --nocache | head -3; done
cp /tmp/mut.bak /repo/$f
