#!/bin/bash
# usage: tools/seed_par.sh <workers> [seed-name...] — replay seeded changes in parallel, each worker on a
# private copy of /verif and a private worktree of /repo under /tmp/seedpar (removed afterwards);
# /repo itself is never touched.  With no names: every seed; then seeded/matrix.json is rewritten.
W=${1:-4}; shift
cd /verif
if [ $# -gt 0 ]; then names=("$@"); all=0; else names=(); for d in seeded/*/; do [ -f $d/meta.json ] && names+=($(basename $d)); done; all=1; fi
root=/tmp/seedpar
for w in $(seq 0 $((W-1))); do git -C /repo worktree remove --force $root/repo$w 2>/dev/null; done
rm -rf $root; mkdir -p $root; git -C /repo worktree prune
for w in $(seq 0 $((W-1))); do
  git -C /repo worktree add -q --detach $root/repo$w HEAD
  rsync -a --exclude seeded --exclude seeded-benign --exclude replays --exclude .git /verif/ $root/verif$w/
  sed -i "s#path = \"/repo\"#path = \"$root/repo$w\"#" $root/verif$w/bounded/Cargo.toml
done
worker() {
  w=$1; i=0
  for name in "${names[@]}"; do
    if [ $((i % W)) -eq $w ]; then
      prop=$(python3 -c "import json;print(json.load(open('/verif/seeded/$name/meta.json'))['breaks_property'])")
      if git -C $root/repo$w apply /verif/seeded/$name/patch.diff 2>/dev/null; then
        s=$(date +%s)
        out=$(cd $root/verif$w && VERIF_REPO=$root/repo$w ./check $prop 2>&1); e=$?
        t=$(( $(date +%s) - s ))
        git -C $root/repo$w checkout -q -- .
        verdict=$(echo "$out" | grep -E '^VIOLATION|^OK|^UNDECIDED' | head -1 | cut -c1-160)
        comp=$(echo "$out" | grep -E '^FAILED-OBLIGATION' | head -1 | cut -d: -f2-4 | cut -c1-160)
        python3 - "$name" "$prop" "$e" "$t" "$verdict" "$comp" >> $root/out$w.jsonl <<'PY'
import json,sys
n,p,e,t,v,c=sys.argv[1:7]
print(json.dumps({"seed":n,"property":p,"exit":int(e),"seconds":int(t),"verdict":v,"first_failed_obligation":c.strip()}))
PY
        echo "$name $prop exit=$e ${t}s :: $verdict :: $comp"
      else
        echo "$name: patch does not apply"
      fi
    fi
    i=$((i+1))
  done
}
for w in $(seq 0 $((W-1))); do worker $w & done
wait
cat $root/out*.jsonl 2>/dev/null | python3 -c "
import sys,json
rows=sorted((json.loads(l) for l in sys.stdin), key=lambda r:r['seed'])
json.dump(rows, open('$root/matrix.json','w'), indent=0)
print(len(rows),'seeds;', sum(1 for r in rows if r['exit']==1),'reported;', [r['seed'] for r in rows if r['exit']!=1])
"
[ $all -eq 1 ] && cp $root/matrix.json /verif/seeded/matrix.json
for w in $(seq 0 $((W-1))); do git -C /repo worktree remove --force $root/repo$w 2>/dev/null; done
rm -rf $root; git -C /repo worktree prune
