#!/bin/bash
# usage: tools/benign_par.sh <workers> <name>... — run all 20 quick checks on each stored behaviour-preserving
# refactoring (seeded-benign/<name>/patch.diff), each worker on private copies of /verif and /repo under
# /tmp/benpar (removed afterwards); writes seeded-benign/<name>/verdicts.txt.  None may exit 1.
W=${1:-4}; shift
names=("$@")
cd /verif
root=/tmp/benpar
for w in $(seq 0 $((W-1))); do git -C /repo worktree remove --force $root/repo$w 2>/dev/null; done
rm -rf $root; mkdir -p $root; git -C /repo worktree prune
for w in $(seq 0 $((W-1))); do
  git -C /repo worktree add -q --detach $root/repo$w HEAD
  rsync -a --exclude seeded --exclude seeded-benign --exclude replays --exclude .git /verif/ $root/verif$w/
  sed -i "s#path = \"/repo\"#path = \"$root/repo$w\"#" $root/verif$w/bounded/Cargo.toml
done
props=$(python3 -c "import json;print(' '.join(c['property_id'] for c in json.load(open('MANIFEST.json'))['checks']))")
worker() {
  w=$1; i=0
  for name in "${names[@]}"; do
    if [ $((i % W)) -eq $w ]; then
      d=/verif/seeded-benign/$name
      if git -C $root/repo$w apply $d/patch.diff 2>/dev/null; then
        : > $d/verdicts.txt
        for p in $props; do
          out=$(cd $root/verif$w && VERIF_REPO=$root/repo$w ./check $p 2>&1); e=$?
          line=$(echo "$out" | grep -E '^VIOLATION|^OK|^UNDECIDED' | head -1 | cut -c1-200)
          echo "$p exit=$e :: $line" >> $d/verdicts.txt
          [ $e -eq 1 ] && echo "$out" | grep -E "^FAILED-OBLIGATION" | head -3 | cut -c1-500 >> $d/verdicts.txt
        done
        git -C $root/repo$w checkout -q -- .
        echo "$name: $(grep -c 'exit=0' $d/verdicts.txt) exit 0, $(grep -c 'exit=2' $d/verdicts.txt) exit 2, $(grep -c 'exit=1' $d/verdicts.txt) exit 1"
      else
        echo "$name: patch does not apply"
      fi
    fi
    i=$((i+1))
  done
}
for w in $(seq 0 $((W-1))); do worker $w & done
wait
for w in $(seq 0 $((W-1))); do git -C /repo worktree remove --force $root/repo$w 2>/dev/null; done
rm -rf $root; git -C /repo worktree prune
