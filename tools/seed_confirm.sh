#!/bin/bash
# usage: tools/seed_confirm.sh <dir-id> — confirm a seeded change in its scratch worktree /tmp/seed/<id>
# (toggles the change with `git apply -R` / `git apply`: `git stash` is shared by all worktrees of a
# repository and interleaves when several seeders work at once)
id=$1; wt=/tmp/seed/$id; out=/tmp/seed/$id-out
cd $wt || exit 2
git diff > /tmp/seed/$id.confirm.patch
echo "== $id: tests with change"; cargo test --offline --lib 2>&1 | grep -E "^test result" 
echo "== demo with change"; (cd $out/demo && cargo run --offline --quiet >/tmp/seed/$id.with.log 2>&1; echo "exit=$?")
git apply -R /tmp/seed/$id.confirm.patch
echo "== demo without change"; (cd $out/demo && cargo run --offline --quiet >/tmp/seed/$id.without.log 2>&1; echo "exit=$?")
git apply /tmp/seed/$id.confirm.patch
git diff --stat | tail -1
