#!/bin/bash
# usage: tools/seed_confirm.sh <dir-id> — confirm a seeded change in its scratch worktree /tmp/seed/<id>
id=$1; wt=/tmp/seed/$id; out=/tmp/seed/$id-out
cd $wt || exit 2
echo "== $id: tests with change"; cargo test --offline --lib 2>&1 | grep -E "^test result" 
echo "== demo with change"; (cd $out/demo && cargo run --offline --quiet >/tmp/seed/$id.with.log 2>&1; echo "exit=$?")
git stash -q
echo "== demo without change"; (cd $out/demo && cargo run --offline --quiet >/tmp/seed/$id.without.log 2>&1; echo "exit=$?")
git stash pop -q
git diff --stat | tail -1
