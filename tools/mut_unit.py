#!/usr/bin/env python3
"""tools/mut_unit.py <unit> <file-in-repo> <<< 'name|||old|||new' lines separated by a line '====' :
apply each textual mutation to a scratch copy of /repo (never /repo itself) and run one Verus unit on it."""
import sys, subprocess, shutil, os, tempfile
unit, rel = sys.argv[1], sys.argv[2]
spec = sys.stdin.read().split('\n====\n')
tmp = tempfile.mkdtemp(prefix='mut_')
SRC = os.environ.get('MUT_SRC', '/repo')
subprocess.run(['rsync', '-a', '--exclude', 'target', '--exclude', '.git', SRC + '/', tmp + '/'], check=True)
src = open(SRC + '/' + rel).read()
for m in spec:
    if not m.strip():
        continue
    name, old, new = m.split('|||')
    if src.count(old) < 1:
        print(name.strip(), '=> pattern not found'); continue
    open(os.path.join(tmp, rel), 'w').write(src.replace(old, new, 1))
    r = subprocess.run('cd /verif && VERIF_REPO=%s python3 vrun.py %s --nocache 2>&1 | head -3' % (tmp, unit), shell=True, capture_output=True, text=True)
    print(name.strip(), '=>', r.stdout.strip()[:330].replace('\n', ' // '))
shutil.rmtree(tmp)
