#!/bin/bash
# Apply every seeded change in turn to /repo, run the owning property's quick check, undo it.
# Writes seeded/matrix.json.  (Do not run other checks concurrently: /repo is modified meanwhile.)
cd /verif
echo "[" > seeded/matrix.json.tmp
first=1
for d in seeded/*/; do
  name=$(basename $d)
  [ -f $d/meta.json ] || continue
  prop=$(python3 -c "import json;print(json.load(open('$d/meta.json'))['breaks_property'])")
  git -C /repo checkout -q -- . 
  if ! git -C /repo apply /verif/$d/patch.diff 2>/dev/null; then echo "$name: patch does not apply"; continue; fi
  s=$(date +%s)
  out=$(./check $prop 2>&1); e=$?
  t=$(( $(date +%s) - s ))
  git -C /repo checkout -q -- .
  verdict=$(echo "$out" | grep -E '^VIOLATION|^OK|^UNDECIDED' | head -1 | cut -c1-160)
  comp=$(echo "$out" | grep -E '^FAILED-OBLIGATION' | head -1 | cut -d: -f2-4 | cut -c1-120)
  echo "$name $prop exit=$e ${t}s :: $verdict"
  [ $first -eq 0 ] && echo "," >> seeded/matrix.json.tmp
  first=0
  python3 - "$name" "$prop" "$e" "$t" "$verdict" "$comp" >> seeded/matrix.json.tmp <<'PY'
import json,sys
n,p,e,t,v,c=sys.argv[1:7]
print(json.dumps({"seed":n,"property":p,"exit":int(e),"seconds":int(t),"verdict":v,"first_failed_obligation":c.strip()}))
PY
done
echo "]" >> seeded/matrix.json.tmp
mv seeded/matrix.json.tmp seeded/matrix.json
git -C /repo status --short
