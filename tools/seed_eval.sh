#!/bin/bash
# usage: tools/seed_eval.sh <seed-name> <property>...  — apply the seeded change to /repo, run the checks, undo it
name=$1; shift
cd /repo && git apply /verif/seeded/$name/patch.diff || { echo "patch does not apply"; exit 2; }
cd /verif
for p in "$@"; do
  out=$(./check $p 2>&1); e=$?
  echo "[$name] check $p exit=$e :: $(echo "$out" | grep -E '^VIOLATION|^OK|^UNDECIDED' | head -2 | cut -c1-220)"
  echo "$out" | grep -E "^FAILED-OBLIGATION" | head -2 | cut -c1-400
done
git -C /repo checkout -- . ; git -C /repo status --short
