#!/bin/bash
# Re-run every registered quick check (as the harness does) and report; used before committing evidence.
cd "$(dirname "$0")/.."
export VERIF_SEED=${VERIF_SEED:-1} VERIF_TIER=${VERIF_TIER:-quick}
rc=0
for p in $(python3 -c "import json;print(' '.join(c['property_id'] for c in json.load(open('MANIFEST.json'))['checks']))"); do
  s=$(date +%s)
  out=$(./check $p --tier $VERIF_TIER 2>&1); e=$?
  echo "$p exit=$e $(( $(date +%s) - s ))s :: $(echo "$out" | tail -1 | cut -c1-200)"
  [ $e -ne 0 ] && rc=1
done
exit $rc
