//! B3: the prefilter coherence contract PC, executed on every prefilter the real builder selects:
//! `None` => no occurrence starts inside the span; `PossibleStartOfMatch(i)` => span.start <= i <=
//! span.end and no occurrence starts before i; `Match(m)` => m is the searcher's own answer.
//! Plus: every search API with the prefilter on equals the definition (long haystacks included).
use crate::eng::{build, with_low, Cfg, Engine, PreCand, StartKindC};
use crate::gen::{enc_pats, hex, show, show_pats, Rng};
use crate::oracle::{self, Kind};
use crate::sem::{check_hay, parse_aspects, Ctx};
use crate::{par_for, Args, Fail, Report};
use std::panic::{catch_unwind, AssertUnwindSafe};

pub fn variant(dbg: &str) -> String {
    for v in ["Memmem", "RareBytesOne", "RareBytesTwo", "RareBytesThree", "StartBytesOne", "StartBytesTwo", "StartBytesThree", "Packed"] {
        if dbg.contains(v) {
            return v.to_string();
        }
    }
    "none".into()
}

/// pattern lists built to activate each prefilter variant
pub fn pre_lists(thorough: bool, seed: usize) -> Vec<(Vec<Vec<u8>>, Vec<u8>)> {
    let mut rng = Rng(0x9E37 + seed as u64);
    let common: &[u8] = b"aet ";
    let rare: &[u8] = &[b'z', b'q', b'#', b'Z', b'E', b'Q', 0xFF, 0x00, b'@'];
    let mut v = vec![];
    let n = if thorough { 3000 } else { 420 };
    for i in 0..n {
        // alphabet of this list: a few common and a few rare bytes
        let mut alpha: Vec<u8> = vec![];
        for _ in 0..(1 + rng.below(3)) {
            alpha.push(common[rng.below(common.len())]);
        }
        for _ in 0..(rng.below(4)) {
            alpha.push(rare[rng.below(rare.len())]);
        }
        if i % 6 == 4 {
            // packed prefilter: >= 3 distinct start bytes, min length >= 2, <= 16 patterns
            alpha = vec![b'a', b'e', b't', b'z', b'q', b'#'];
        }
        alpha.sort();
        alpha.dedup();
        let npat = match i % 6 {
            0 => 1,
            1 => 2,
            2 => 3,
            3 => 4 + rng.below(4),
            4 => 3 + rng.below(6),
            _ => 1 + rng.below(12),
        };
        let mut pats = vec![];
        for _ in 0..npat {
            let len = if i % 6 == 4 { 2 + rng.below(5) } else { match rng.below(10) {
                0 => 1,
                1..=5 => 2 + rng.below(3),
                6..=8 => 3 + rng.below(5),
                _ => 9 + rng.below(12),
            } };
            pats.push(rng.bytes(&alpha, len));
        }
        // haystack alphabet: the list's alphabet plus bytes that never occur in a pattern
        let mut halpha = alpha.clone();
        halpha.extend_from_slice(b"x.");
        if rng.below(3) == 0 {
            // letters in the other case (matters for ci)
            let extra: Vec<u8> = alpha.iter().filter(|b| b.is_ascii_alphabetic()).map(|b| b ^ 0x20).collect();
            halpha.extend(extra);
        }
        v.push((pats, halpha));
    }
    // documented thresholds of the prefilter builders: patterns of 255 / 256 / 300 bytes next to
    // a short pattern with a rare byte (the rare-byte prefilter must be disabled at >= 256)
    for long in [200usize, 255, 256, 257, 300] {
        for short in [&b"#tag"[..], &b"zq"[..], &b"Q"[..]] {
            let text = b"enabling or disabling the prefilter never changes a search result; ";
            let p: Vec<u8> = (0..long).map(|i| text[i % text.len()]).collect();
            v.push((vec![short.to_vec(), p.clone()], b"et a.x".to_vec()));
            v.push((vec![p, short.to_vec()], b"et a.x".to_vec()));
        }
    }
    // packed prefilter with long patterns (confirmation compares beyond the fingerprint): 4..7
    // patterns with distinct first bytes and lengths 13..40; the haystacks get near misses planted
    for k in 0..(if thorough { 60 } else { 14 }) {
        let firsts: &[u8] = b"QZ#qz@E";
        let n = 4 + rng.below(4);
        let mut l = vec![];
        for i in 0..n {
            let len = [13usize, 16, 17, 21, 22, 24, 29, 32, 40][(k + i) % 9];
            let mut p = vec![firsts[i]];
            p.extend(rng.bytes(b"aet-", len - 1));
            l.push(p);
        }
        v.push((l, b"aet-x".to_vec()));
    }
    // more than 128 patterns (the packed builder gives up there) whose first 128+ share one start
    // byte / one rare byte, followed by patterns that start differently
    for extra in [1usize, 2, 12] {
        let mut l: Vec<Vec<u8>> = (0..(128 + extra * 6)).map(|i| format!("a{:03}", i).into_bytes()).collect();
        l.push(b"zeta".to_vec());
        l.push(b"omega".to_vec());
        v.push((l, b"a01 zetomg.x".to_vec()));
        let mut l: Vec<Vec<u8>> = (0..(127 + extra)).map(|i| format!("{:03}Q", i).into_bytes()).collect();
        l.push(b"zeta".to_vec());
        v.push((l, b"01Q zeta.x".to_vec()));
    }
    // packed-selecting lists in which a pattern is a proper prefix of a later (and of an earlier) one:
    // leftmost-first and leftmost-longest disagree there, and the prefilter must follow the searcher
    v.push((vec![b"sam".to_vec(), b"samwise".to_vec(), b"frodo".to_vec(), b"pippin".to_vec(), b"merry".to_vec(), b"gandalf".to_vec()], b"samwise frodpinmeyglx.".to_vec()));
    v.push((vec![b"frodo".to_vec(), b"samwise".to_vec(), b"sam".to_vec(), b"pip".to_vec(), b"pippin".to_vec(), b"merry".to_vec(), b"gandalf".to_vec(), b"me".to_vec()], b"samwise frodpinmeyglx.".to_vec()));
    v.push((vec![b"ab".to_vec(), b"abcd".to_vec(), b"abc".to_vec(), b"xy".to_vec(), b"xyz".to_vec(), b"qr".to_vec(), b"qrs".to_vec()], b"abcdxyzqrs .".to_vec()));
    // several hundred to a few thousand patterns sharing one start byte / one rare byte, followed by
    // one that starts differently (a builder that stops analysing patterns at some count)
    for n in [300usize, 520, 600, 1100, 2100, 4200] {
        let mut l: Vec<Vec<u8>> = (0..n).map(|i| format!("/{:04}", i).into_bytes()).collect();
        l.push(b"README".to_vec());
        v.push((l, b"/0123 READMEx.".to_vec()));
        let mut l: Vec<Vec<u8>> = (0..n).map(|i| format!("{:04}Q", i).into_bytes()).collect();
        l.push(b"zeta".to_vec());
        v.push((l, b"0123Q zeta.x".to_vec()));
    }
    // crowded fingerprint groups of the vector searcher (see packedc::lists), as prefilter
    {
        let firsts = [0x61u8, 0x41, 0x51, 0x71, 0x31, 0x21];
        let seconds = [0x62u8, 0x42, 0x52, 0x72, 0x32, 0x22];
        let group: Vec<Vec<u8>> = firsts.iter().flat_map(|&a| seconds.iter().map(move |&b| vec![a, b])).collect();
        for n in [9usize, 17, 20, 33] {
            let mut l: Vec<Vec<u8>> = group[..n].to_vec();
            l.push(b"zz".to_vec());
            l.push(b"abcd".to_vec());
            l.push(vec![0x41, 0x62, b'x']);
            v.push((l, b"abAB12cdxz.".to_vec()));
        }
    }
    // at most three distinct first bytes, some of them UTF-8 lead bytes (0xC2..=0xF4), others
    // ASCII or continuation / invalid bytes; more rare bytes than start bytes
    for l in [
        vec!["\u{fc}ber".as_bytes().to_vec(), b"fjord".to_vec(), b"fix".to_vec()],
        vec!["\u{e9}t\u{e9}".as_bytes().to_vec(), "\u{e9}cole".as_bytes().to_vec(), b"zoo".to_vec()],
        vec!["\u{2603}x".as_bytes().to_vec(), "\u{1F600}".as_bytes().to_vec(), b"qq".to_vec()],
        vec![vec![0xC2, b'a', b'b'], vec![0x80, b'z'], vec![0xF4, b'k', b'k']],
        vec![vec![0xF5, b'a'], vec![0xC1, b'b'], vec![0xC2, b'c']],
        vec!["\u{fc}ber".as_bytes().to_vec()],
        vec!["\u{fc}ber".as_bytes().to_vec(), "\u{e4}hnlich".as_bytes().to_vec()],
        // one first byte at the very top of the byte range next to ASCII ones
        vec![vec![0xFF, 0xD8, 0xFF], b"GIF8".to_vec(), b"BM".to_vec()],
        vec![vec![0xFF, 0xFE], b"<?xml".to_vec(), b"<html".to_vec()],
        vec![vec![0xFE, b'x'], b"ab".to_vec(), b"cd".to_vec()],
        vec![vec![0x80, b'x'], b"ab".to_vec()],
        vec![vec![0x7F, b'x'], vec![0xFF, b'y']],
        vec![vec![0xFF]],
        vec![vec![0x00, b'x'], vec![0xFF, b'y'], b"mid".to_vec()],
    ] {
        let mut halpha: Vec<u8> = l.iter().flatten().cloned().collect();
        halpha.extend_from_slice(b" x");
        halpha.sort();
        halpha.dedup();
        v.push((l, halpha));
    }
    // a pattern whose first rare byte sits at offset 254..300 (offsets are stored in a u8)
    for k in [254usize, 255, 256, 257, 300] {
        let mut p = vec![b'a'; k];
        p.push(b'Q');
        v.push((vec![p.clone(), b"aQ".to_vec()], b"aQx".to_vec()));
        v.push((vec![b"aQ".to_vec(), p], b"aQx".to_vec()));
    }
    v
}

fn check_pc_one(rep: &Report, cfg: &Cfg, pats: &[Vec<u8>], hay: &[u8], s: usize, e: usize, c: PreCand) {
    let occs = oracle::occs_in(pats, cfg.ci, hay, s, e, false);
    let first_start = occs.iter().map(|m| m.start).min();
    let bad = match c {
        PreCand::None => {
            if occs.is_empty() { None } else { Some(format!("Candidate::None but {:?} occurs", occs[0])) }
        }
        PreCand::Possible(i) => {
            if i < s || i > e {
                Some(format!("PossibleStartOfMatch({}) outside the span", i))
            } else if first_start.map_or(false, |f| f < i) {
                Some(format!("PossibleStartOfMatch({}) skips the occurrence starting at {}", i, first_start.unwrap()))
            } else {
                None
            }
        }
        PreCand::Match(m) => {
            let want = oracle::find(pats, cfg.ci, cfg.mk, hay, s, e, false);
            if want == Some(m) { None } else { Some(format!("Candidate::Match({:?}) but the searcher's answer is {:?}", m, want)) }
        }
    };
    if let Some(w) = bad {
        rep.fail(Fail {
            key: format!("pc:{}:ci={}:pats={}:hay={}:span={}..{}", cfg.mk.name(), cfg.ci as u8, show_pats(pats), show(hay), s, e),
            what: format!("prefilter contract broken for {} [{}] on '{}' span {}..{}: {}", show_pats(pats), cfg.encode(), show(hay), s, e, w),
            argv: vec!["pc".into(), "--one-cfg".into(), cfg.encode(), "--one-pats".into(), enc_pats(pats), "--one-hay".into(), format!("x{}", hex(hay)), "--one-span".into(), format!("{},{}", s, e)],
        });
    }
}

pub fn run(args: &Args) -> Report {
    let thorough = args.thorough();
    let seed = args.num("seed", 0);
    let aspects = parse_aspects(&args.get("aspects", "find,iter,ov,earliest"));
    let rep = Report::new(
        &format!("pc[{}]", args.get("mode", "def")),
        format!("{} random pattern lists built to activate each prefilter variant (1..12 patterns of length 1..20 over common+rare bytes), x 3 match kinds x ci on/off x {{noncontiguous, contiguous, DFA}} with prefilter on; haystacks: {} random of length 0..12 (every span) + {} long ones (64..300 bytes, planted occurrences, sampled spans)",
                if thorough { 3000 } else { 420 }, if thorough { 60 } else { 24 }, if thorough { 12 } else { 5 }),
        "case = (pattern list, configuration, haystack, span): Prefilter::find_in result vs the occurrence definition, and every search API with prefilter on vs the definition; non-trivial = a prefilter was built and some pattern occurs".into(),
    );
    if args.has("one-cfg") {
        let cfg = Cfg::parse(&args.get("one-cfg", ""));
        let pats = crate::gen::dec_pats(&args.get("one-pats", "-"));
        let hay = crate::gen::unhex(&args.get("one-hay", "x")[1..]);
        let sp: Vec<usize> = args.get("one-span", "0,0").split(',').map(|x| x.parse().unwrap()).collect();
        if let Ok(b) = build(&cfg, &pats) {
            with_low(&b, &mut |a| {
                if let Some(c) = a.prefilter_find_in(&hay, sp[0], sp[1]) {
                    check_pc_one(&rep, &cfg, &pats, &hay, sp[0], sp[1], c);
                    rep.case(true);
                }
            });
        }
        return rep;
    }
    let lists = pre_lists(thorough, seed);
    par_for(&lists, |(pats, halpha)| {
        let mut rng = Rng(pats.len() as u64 * 7919 + pats[0].len() as u64 + seed as u64);
        // haystacks
        let mut hays: Vec<Vec<u8>> = vec![];
        for _ in 0..(if thorough { 60 } else { 24 }) {
            let l = rng.below(13);
            hays.push(rng.bytes(halpha, l));
        }
        let mut longs: Vec<Vec<u8>> = vec![];
        let maxp = pats.iter().map(|p| p.len()).max().unwrap_or(0);
        for _ in 0..(if thorough { 12 } else { 5 }) {
            let l = 64 + rng.below(240) + if maxp > 60 { maxp } else { 0 };
            let mut h = if rng.below(2) == 0 { rng.bytes(halpha, l) } else { vec![b'x'; l] };
            for _ in 0..rng.below(4) {
                let p = &pats[rng.below(pats.len())];
                if p.len() < l {
                    let at = rng.below(l - p.len());
                    h[at..at + p.len()].copy_from_slice(p);
                }
            }
            longs.push(h);
        }
        // near misses: a pattern with exactly one byte changed, at every position of patterns of
        // 8..48 bytes (a confirmation step that skips a byte reports a match that is none)
        for p in pats.iter().filter(|p| p.len() >= 8 && p.len() <= 48) {
            let mut h = vec![b'x'; 30];
            for j in 0..p.len() {
                let mut q = p.clone();
                q[j] = if q[j] == b'_' { b'-' } else { b'_' };
                h.extend_from_slice(&q);
                h.extend_from_slice(b"xx");
            }
            h.extend_from_slice(p);
            h.extend_from_slice(&[b'x'; 30]);
            longs.push(h);
        }
        for kind in [Kind::Std, Kind::LF, Kind::LL] {
            for ci in [false, true] {
                let mut built = vec![];
                for (engine, sk, bc) in [(Engine::LowNonContig, StartKindC::B, true), (Engine::LowContig, StartKindC::B, true), (Engine::LowDfa, StartKindC::U, false), (Engine::TopAuto, StartKindC::U, true)] {
                    let cfg = Cfg { engine, sk, mk: kind, ci, pre: true, dd: None, bc };
                    if let Ok(Ok(b)) = catch_unwind(AssertUnwindSafe(|| build(&cfg, pats))) {
                        built.push((cfg, b));
                    }
                }
                if built.is_empty() {
                    continue;
                }
                let mut var = "none".to_string();
                with_low(&built[0].1, &mut |a| {
                    var = variant(&a.prefilter_debug());
                });
                rep.count(&format!("variant[{}]", var), 1);
                if var == "none" {
                    continue;
                }
                let ctx = Ctx { rep: &rep, pats, kind, ci };
                // (1) the prefilter's own contract, every span of every short haystack
                for (cfg, b) in built.iter().take(if args.get("mode", "def") == "def" { 1 } else { 0 }) {
                    // (mode api: only the API-level comparison below, for properties other than C05)
                    with_low(b, &mut |a| {
                        for h in &hays {
                            for s in 0..=h.len() {
                                for e in s..=h.len() {
                                    if let Ok(Some(c)) = catch_unwind(AssertUnwindSafe(|| a.prefilter_find_in(h, s, e))) {
                                        check_pc_one(&rep, cfg, pats, h, s, e, c);
                                    } else {
                                        check_pc_one(&rep, cfg, pats, h, s, e, PreCand::Possible(usize::MAX));
                                    }
                                    rep.case(true);
                                }
                            }
                        }
                        for h in &longs {
                            let mut r2 = Rng(h.len() as u64);
                            for k in 0..24 {
                                let (s, e) = if k == 0 { (0, h.len()) } else { let s = r2.below(h.len()); (s, s + r2.below(h.len() - s + 1)) };
                                if let Ok(Some(c)) = catch_unwind(AssertUnwindSafe(|| a.prefilter_find_in(h, s, e))) {
                                    check_pc_one(&rep, cfg, pats, h, s, e, c);
                                }
                                rep.case(true);
                            }
                        }
                    });
                }
                let mode = args.get("mode", "def");
                if mode == "span" {
                    // C10: with a prefilter, a span search equals the sub-slice search shifted
                    for h in hays.iter().take(if thorough { 30 } else { 10 }) {
                        crate::sem::check_hay_rel(&ctx, &built, h, aspects | crate::sem::A_SPANS, "span");
                    }
                    // long haystacks: short spans that start shortly before an occurrence and end
                    // inside it or right after it (a prefilter that looks beyond the span end, or a
                    // vector searcher that needs a minimum window, is exercised here)
                    let names: Vec<&str> = [("find", crate::sem::A_FIND), ("iter", crate::sem::A_ITER)].iter().filter(|x| aspects & x.1 != 0).map(|x| x.0).collect();
                    for h in longs.iter() {
                        let occs = oracle::occs_in(pats, ci, h, 0, h.len(), false);
                        let mut done = 0;
                        for o in occs.iter() {
                            for back in [0usize, 2, 7] {
                                for e in (o.start + 1)..=(o.end + 1).min(h.len()) {
                                    let s0 = o.start.saturating_sub(back);
                                    crate::sem::check_span_rel(&ctx, &built, h, s0, e, aspects, "span", true, &names);
                                }
                            }
                            done += 1;
                            if done >= 6 || rep.full() {
                                break;
                            }
                        }
                    }
                } else if mode == "safety" {
                    // C15: no panic and in-range results on arbitrary bytes
                    for h in hays.iter().chain(longs.iter()) {
                        for (cfg, b) in &built {
                            let r = catch_unwind(AssertUnwindSafe(|| b.try_find_iter(h, 0, h.len(), false)));
                            rep.case(true);
                            let ok = matches!(&r, Ok(Ok(v)) if v.iter().all(|m| m.start <= m.end && m.end <= h.len() && m.pid < pats.len()));
                            if !ok {
                                rep.fail(Fail { key: format!("pc-safety:{}:{}", show_pats(pats), show(h)), what: format!("panic or out-of-range match for {} [{}] on '{}': {:?}", show_pats(pats), cfg.encode(), show(h), r), argv: vec![] });
                            }
                        }
                    }
                } else {
                    // (2) transparency at the API: prefilter on vs the definition
                    for h in hays.iter().take(if thorough { 30 } else { 10 }) {
                        check_hay(&ctx, &built, h, aspects | crate::sem::A_SPANS);
                    }
                    for h in &longs {
                        check_hay(&ctx, &built, h, aspects);
                    }
                }
                if rep.full() {
                    return;
                }
            }
        }
    });
    rep.sample(format!("e.g. patterns {} over haystack alphabet '{}'", show_pats(&lists[3].0), show(&lists[3].1)));
    rep
}
