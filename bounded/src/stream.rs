//! Bounded companion of the stream proofs (C07/C08/C18): the real stream APIs driven by readers
//! with explicit read-size schedules, tiny roll-buffer capacities (hook H2), and injected
//! read / write faults at every position; compared with the in-memory definition.
use crate::eng::{build, cv, Built, Cfg, Engine, StartKindC};
use crate::gen::{self, enc_pats, hex, show, show_pats, Rng};
use crate::oracle::{self, Kind, M};
use crate::{par_for, Args, Fail, Report};
use aho_corasick::automaton::Automaton;
use std::io::{self, Read, Write};
use std::panic::{catch_unwind, AssertUnwindSafe};

pub struct SchedReader<'a> {
    pub data: &'a [u8],
    pub pos: usize,
    pub sched: &'a [usize],
    pub i: usize,
    pub fail_at: Option<usize>,
    /// how many more reads fail right after the first failing one (consecutive failures)
    pub repeat: usize,
    /// set when a read into a non-empty buffer returned Ok(0): the reader has reported the end
    pub eof: Option<&'a std::sync::atomic::AtomicBool>,
}
impl<'a> Read for SchedReader<'a> {
    fn read(&mut self, buf: &mut [u8]) -> io::Result<usize> {
        if let Some(k) = self.fail_at {
            if self.pos >= k {
                if self.repeat > 0 {
                    self.repeat -= 1;
                } else {
                    self.fail_at = None;
                }
                // rotate through error kinds: the property makes no exception for any of them
                let kind = fault_kind(k);
                return Err(io::Error::new(kind, "injected read fault"));
            }
        }
        let want = self.sched[self.i % self.sched.len()];
        self.i += 1;
        let mut n = want.min(buf.len()).min(self.data.len() - self.pos);
        if let Some(k) = self.fail_at {
            n = n.min(k - self.pos).max(if k > self.pos { 1 } else { 0 });
        }
        buf[..n].copy_from_slice(&self.data[self.pos..self.pos + n]);
        self.pos += n;
        if n == 0 && !buf.is_empty() {
            if let Some(e) = self.eof {
                e.store(true, std::sync::atomic::Ordering::Relaxed);
            }
        }
        Ok(n)
    }
}

/// the error kind of an injected fault rotates with the fault position: the property makes no
/// exception for any kind
pub fn fault_kind(k: usize) -> io::ErrorKind {
    const KINDS: [io::ErrorKind; 10] = [
        io::ErrorKind::Other, io::ErrorKind::Interrupted, io::ErrorKind::WouldBlock, io::ErrorKind::UnexpectedEof,
        io::ErrorKind::BrokenPipe, io::ErrorKind::TimedOut, io::ErrorKind::WriteZero, io::ErrorKind::ConnectionReset,
        io::ErrorKind::InvalidData, io::ErrorKind::NotFound,
    ];
    KINDS[k % KINDS.len()]
}

pub struct FaultWriter {
    pub out: Vec<u8>,
    pub fail_after: Option<usize>,
    pub kind_shift: usize,
}

/// a writer that accepts at most `max` bytes per `write` call (legal for std::io::Write; only
/// `write_all` may be relied upon to write everything)
pub struct ShortWriter {
    pub out: Vec<u8>,
    pub max: usize,
}
impl Write for ShortWriter {
    fn write(&mut self, buf: &[u8]) -> io::Result<usize> {
        let n = buf.len().min(self.max);
        self.out.extend_from_slice(&buf[..n]);
        Ok(n)
    }
    fn flush(&mut self) -> io::Result<()> {
        Ok(())
    }
}
/// a writer that is full after `cap` bytes: further writes return Ok(0) (std's `&mut [u8]`)
pub struct ZeroWriter {
    pub out: Vec<u8>,
    pub cap: usize,
}
impl Write for ZeroWriter {
    fn write(&mut self, buf: &[u8]) -> io::Result<usize> {
        let n = buf.len().min(self.cap - self.out.len());
        self.out.extend_from_slice(&buf[..n]);
        Ok(n)
    }
    fn flush(&mut self) -> io::Result<()> {
        Ok(())
    }
}
impl Write for FaultWriter {
    fn write(&mut self, buf: &[u8]) -> io::Result<usize> {
        if let Some(k) = self.fail_after {
            if self.out.len() >= k {
                // never Interrupted: std's write_all retries that kind, and this fault is persistent
                let mut kind = fault_kind(k + self.kind_shift);
                if kind == io::ErrorKind::Interrupted {
                    kind = io::ErrorKind::BrokenPipe;
                }
                return Err(io::Error::new(kind, "injected write fault"));
            }
            let n = buf.len().min(k - self.out.len());
            self.out.extend_from_slice(&buf[..n]);
            return Ok(n);
        }
        self.out.extend_from_slice(buf);
        Ok(buf.len())
    }
    fn flush(&mut self) -> io::Result<()> {
        Ok(())
    }
}

/// the low-level automata are searched through a *borrowed* automaton (`A = &T`), i.e. through the
/// forwarding `impl Automaton for &A`, as code generic over `A: Automaton` does
fn sf_generic<A: aho_corasick::automaton::Automaton>(a: A, rdr: SchedReader) -> Result<Vec<Result<M, String>>, String> {
    match a.try_stream_find_iter(rdr) {
        Ok(it) => {
            let mut out = vec![];
            for r in it {
                match r {
                    Ok(m) => out.push(Ok(cv(m))),
                    Err(e) => {
                        out.push(Err(e.to_string()));
                        break;
                    }
                }
            }
            Ok(out)
        }
        Err(e) => Err(e.to_string()),
    }
}
fn sr_generic<A: aho_corasick::automaton::Automaton>(a: A, rdr: SchedReader, w: &mut FaultWriter, repl: &[Vec<u8>]) -> io::Result<()> {
    a.try_stream_replace_all(rdr, w, repl)
}

fn stream_find(b: &Built, rdr: SchedReader) -> Result<Vec<Result<M, String>>, String> {
    macro_rules! go {
        ($it:expr) => {{
            let mut out = vec![];
            for r in $it {
                match r {
                    Ok(m) => out.push(Ok(cv(m))),
                    Err(e) => {
                        out.push(Err(e.to_string()));
                        break;
                    }
                }
            }
            Ok(out)
        }};
    }
    match b {
        Built::Top(t) => match t.try_stream_find_iter(rdr) {
            Ok(it) => go!(it),
            Err(e) => Err(e.to_string()),
        },
        Built::NC(a) => sf_generic(a, rdr),
        Built::C(a) => sf_generic(a, rdr),
        Built::D(a) => sf_generic(a, rdr),
    }
}

/// keep iterating after an error item (the injected fault is transient): returns the items and
/// whether the iterator ended (None) — used for "end of stream only when the reader reports it"
fn stream_protocol(b: &Built, data: &[u8], si: usize, want: &[Result<M, String>]) -> Result<(), String> {
    fn conv(r: io::Result<aho_corasick::Match>) -> Result<M, String> {
        r.map(crate::eng::cv).map_err(|e| e.to_string())
    }
    fn generic<A: aho_corasick::automaton::Automaton>(a: A, data: &[u8], si: usize, want: &[Result<M, String>]) -> Result<(), String> {
        gen::iter_protocol(&|| aho_corasick::automaton::Automaton::try_stream_find_iter(&a, SchedReader { data, pos: 0, sched: SCHEDS[si], i: 0, fail_at: None, repeat: 0, eof: None }).unwrap(), &conv, want)
    }
    match b {
        Built::Top(t) => gen::iter_protocol(&|| t.try_stream_find_iter(SchedReader { data, pos: 0, sched: SCHEDS[si], i: 0, fail_at: None, repeat: 0, eof: None }).unwrap(), &conv, want),
        Built::NC(a) => generic(a, data, si, want),
        Built::C(a) => generic(a, data, si, want),
        Built::D(a) => generic(a, data, si, want),
    }
}

fn stream_find_resume(b: &Built, rdr: SchedReader) -> Result<(Vec<Result<M, String>>, bool), String> {
    fn go<I: Iterator<Item = io::Result<aho_corasick::Match>>>(it: I) -> (Vec<Result<M, String>>, bool) {
        let mut out = vec![];
        let mut errs = 0;
        let mut ended = false;
        let mut it = it;
        loop {
            match it.next() {
                None => {
                    ended = true;
                    break;
                }
                Some(Ok(m)) => out.push(Ok(cv(m))),
                Some(Err(e)) => {
                    out.push(Err(e.to_string()));
                    errs += 1;
                    if errs > 3 || out.len() > 10_000 {
                        break;
                    }
                }
            }
        }
        (out, ended)
    }
    fn generic<A: aho_corasick::automaton::Automaton>(a: A, rdr: SchedReader) -> Result<(Vec<Result<M, String>>, bool), String> {
        a.try_stream_find_iter(rdr).map(go).map_err(|e| e.to_string())
    }
    match b {
        Built::Top(t) => t.try_stream_find_iter(rdr).map(go).map_err(|e| e.to_string()),
        Built::NC(a) => generic(a, rdr),
        Built::C(a) => generic(a, rdr),
        Built::D(a) => generic(a, rdr),
    }
}

fn stream_replace(b: &Built, rdr: SchedReader, w: &mut FaultWriter, repl: &[Vec<u8>]) -> io::Result<()> {
    match b {
        Built::Top(t) => t.try_stream_replace_all(rdr, w, repl),
        Built::NC(a) => sr_generic(a, rdr, w, repl),
        Built::C(a) => sr_generic(a, rdr, w, repl),
        Built::D(a) => sr_generic(a, rdr, w, repl),
    }
}

fn stream_replace_with(b: &Built, rdr: SchedReader, w: &mut FaultWriter, seen: &mut Vec<(M, Vec<u8>)>) -> io::Result<()> {
    let mut f = |m: &aho_corasick::Match, bytes: &[u8], w: &mut &mut FaultWriter| -> io::Result<()> {
        seen.push((cv(*m), bytes.to_vec()));
        w.write_all(b"<")?;
        w.write_all(bytes)?;
        w.write_all(b">")
    };
    match b {
        Built::Top(t) => t.try_stream_replace_all_with(rdr, w, &mut f),
        Built::NC(a) => a.try_stream_replace_all_with(rdr, w, &mut f),
        Built::C(a) => a.try_stream_replace_all_with(rdr, w, &mut f),
        Built::D(a) => a.try_stream_replace_all_with(rdr, w, &mut f),
    }
}

const SCHEDS: [&[usize]; 7] = [&[1], &[2], &[3, 1], &[1, 5, 2], &[usize::MAX], &[4, usize::MAX, 1], &[7, 1, 1, 2]];
const SPARES: [Option<usize>; 5] = [Some(1), Some(2), Some(3), Some(8), None];

fn fail(rep: &Report, what: &str, cfg: &Cfg, pats: &[Vec<u8>], data: &[u8], si: usize, spare: Option<usize>, fault: Option<usize>, detail: String) {
    rep.fail(Fail {
        key: format!("stream:{}:pats={}:data={}:sched={}:spare={:?}:fault={:?}", what, show_pats(pats), show(data), si, spare, fault),
        what: format!("stream {} [{}] patterns {} stream '{}' read schedule {:?} spare capacity {:?} fault at {:?}: {}", what, cfg.encode(), show_pats(pats), show(data), SCHEDS[si], spare, fault, detail),
        argv: vec!["stream".into(), "--one-cfg".into(), cfg.encode(), "--one-pats".into(), enc_pats(pats), "--one-data".into(), format!("x{}", hex(data)), "--one-sched".into(), si.to_string(),
                   "--one-spare".into(), spare.map(|s| s.to_string()).unwrap_or("-".into()), "--one-fault".into(), fault.map(|s| s.to_string()).unwrap_or("-".into())],
    });
}

pub fn check_one(rep: &Report, cfg: &Cfg, b: &Built, pats: &[Vec<u8>], data: &[u8], si: usize, spare: Option<usize>, faults: bool, do_find: bool, do_replace: bool) {
    aho_corasick::verif::set_buffer_spare_capacity(spare);
    let want = oracle::iter(pats, cfg.ci, Kind::Std, data, 0, data.len(), false);
    let repl: Vec<Vec<u8>> = (0..pats.len()).map(|i| format!("[{}]", i).into_bytes()).collect();
    let want_out = oracle::splice(data, &want, &repl);
    // C07
    if do_find {
    let got = catch_unwind(AssertUnwindSafe(|| stream_find(b, SchedReader { data, pos: 0, sched: SCHEDS[si], i: 0, fail_at: None, repeat: 0, eof: None })));
    let ok = matches!(&got, Ok(Ok(v)) if v.len() == want.len() && v.iter().zip(&want).all(|(a, b)| a.as_ref().ok() == Some(b)));
    rep.case(!want.is_empty());
    if !ok {
        fail(rep, "find_iter", cfg, pats, data, si, spare, None, format!("expected {:?}, got {:?}", want, got));
    }
    // ... the stream iterator type obeys the Iterator protocol (nth, skip, step_by, count, last, ...)
    if ok && want.len() <= 6 {
        let wantr: Vec<Result<M, String>> = want.iter().cloned().map(Ok).collect();
        let r = catch_unwind(AssertUnwindSafe(|| stream_protocol(b, data, si, &wantr)));
        rep.case(!want.is_empty());
        if !matches!(&r, Ok(Ok(()))) {
            fail(rep, "stream iterator protocol", cfg, pats, data, si, spare, None, format!("{:?}", r));
        }
    }
    // ... and equals the in-memory iterator of the very same searcher
    let mem = catch_unwind(AssertUnwindSafe(|| b.try_find_iter(data, 0, data.len(), false)));
    let same = match (&got, &mem) {
        (Ok(Ok(v)), Ok(Ok(m))) => v.len() == m.len() && v.iter().zip(m).all(|(a, b)| a.as_ref().ok() == Some(b)),
        _ => false,
    };
    rep.case(!want.is_empty());
    if ok && !same {
        fail(rep, "find_iter vs in-memory", cfg, pats, data, si, spare, None, format!("the in-memory iterator of the same searcher gives {:?}, the stream iterator {:?}", mem, got));
    }
    }
    // C08: table replacement and closure variant
    if do_replace {
    let mut w = FaultWriter { out: vec![], fail_after: None, kind_shift: 0 };
    let r = catch_unwind(AssertUnwindSafe(|| stream_replace(b, SchedReader { data, pos: 0, sched: SCHEDS[si], i: 0, fail_at: None, repeat: 0, eof: None }, &mut w, &repl)));
    rep.case(!want.is_empty());
    if !matches!(&r, Ok(Ok(()))) || w.out != want_out {
        fail(rep, "replace_all", cfg, pats, data, si, spare, None, format!("expected '{}', got '{}' ({:?})", show(&want_out), show(&w.out), r.map(|x| x.map_err(|e| e.to_string()))));
    }
    // a writer with short writes (1 or 2 bytes per call) must still receive everything
    if let Built::Top(t) = b {
        let mut sw = ShortWriter { out: vec![], max: 1 + si % 2 };
        let r = catch_unwind(AssertUnwindSafe(|| t.try_stream_replace_all(SchedReader { data, pos: 0, sched: SCHEDS[si], i: 0, fail_at: None, repeat: 0, eof: None }, &mut sw, &repl)));
        rep.case(!want.is_empty());
        if !matches!(&r, Ok(Ok(()))) || sw.out != want_out {
            fail(rep, "replace_all(short-write writer)", cfg, pats, data, si, spare, None, format!("expected '{}', got '{}'", show(&want_out), show(&sw.out)));
        }
    }
    let mut w2 = FaultWriter { out: vec![], fail_after: None, kind_shift: 0 };
    let mut seen = vec![];
    let r = catch_unwind(AssertUnwindSafe(|| stream_replace_with(b, SchedReader { data, pos: 0, sched: SCHEDS[si], i: 0, fail_at: None, repeat: 0, eof: None }, &mut w2, &mut seen)));
    let seen_ok = seen.len() == want.len() && seen.iter().zip(&want).all(|((m, bytes), w)| m == w && bytes[..] == data[w.start..w.end]);
    rep.case(!want.is_empty());
    if !matches!(&r, Ok(Ok(()))) || !seen_ok {
        fail(rep, "replace_all_with", cfg, pats, data, si, spare, None, format!("closure saw {:?}, expected matches {:?}", seen, want));
    }
    }
    if !faults {
        return;
    }
    // C18 is relative to the *fault-free run of the same code*: what the real searcher yields /
    // writes without faults (not the definition, which is C07/C08's business)
    let want: Vec<M> = match catch_unwind(AssertUnwindSafe(|| stream_find(b, SchedReader { data, pos: 0, sched: SCHEDS[si], i: 0, fail_at: None, repeat: 0, eof: None }))) {
        Ok(Ok(v)) => v.into_iter().filter_map(|x| x.ok()).collect(),
        _ => want,
    };
    let want_out = {
        let mut w = FaultWriter { out: vec![], fail_after: None, kind_shift: 0 };
        let _ = catch_unwind(AssertUnwindSafe(|| stream_replace(b, SchedReader { data, pos: 0, sched: SCHEDS[si], i: 0, fail_at: None, repeat: 0, eof: None }, &mut w, &repl)));
        w.out
    };
    // C18: a read fault at every position k
    for k in 0..=data.len() {
        let got = catch_unwind(AssertUnwindSafe(|| stream_find(b, SchedReader { data, pos: 0, sched: SCHEDS[si], i: 0, fail_at: Some(k), repeat: 0, eof: None })));
        rep.case(true);
        let ok = match &got {
            Ok(Ok(v)) => {
                let n_ok = v.iter().take_while(|x| x.is_ok()).count();
                let is_prefix = n_ok <= want.len() && v[..n_ok].iter().zip(&want).all(|(a, b)| a.as_ref().ok() == Some(b));
                // the error must surface, as the last item; every match ending at or before k-? cannot be lost silently
                let err_last = n_ok + 1 == v.len() && v[n_ok].is_err();
                is_prefix && err_last
            }
            _ => false,
        };
        if !ok {
            fail(rep, "read-fault", cfg, pats, data, si, spare, Some(k), format!("fault-free {:?}, got {:?}", want, got));
        }
        // the fault is transient: a caller that keeps iterating is told "end of stream" only once
        // the reader has reported it, and what it is given stays a prefix of the fault-free run
        let eof = std::sync::atomic::AtomicBool::new(false);
        let got2 = catch_unwind(AssertUnwindSafe(|| stream_find_resume(b, SchedReader { data, pos: 0, sched: SCHEDS[si], i: 0, fail_at: Some(k), repeat: 0, eof: Some(&eof) })));
        rep.case(true);
        let ok2 = match &got2 {
            Ok(Ok((v, ended))) => {
                let oks: Vec<&M> = v.iter().filter_map(|x| x.as_ref().ok()).collect();
                let is_prefix = oks.len() <= want.len() && oks.iter().zip(&want).all(|(a, b)| *a == b);
                is_prefix && (!*ended || eof.load(std::sync::atomic::Ordering::Relaxed))
            }
            _ => false,
        };
        // ... also when the reader fails three times in a row before it recovers
        if k % 3 == 0 {
            let eof3 = std::sync::atomic::AtomicBool::new(false);
            let got3 = catch_unwind(AssertUnwindSafe(|| stream_find_resume(b, SchedReader { data, pos: 0, sched: SCHEDS[si], i: 0, fail_at: Some(k), repeat: 2, eof: Some(&eof3) })));
            rep.case(true);
            let ok3 = match &got3 {
                Ok(Ok((v, ended))) => {
                    let oks: Vec<&M> = v.iter().filter_map(|x| x.as_ref().ok()).collect();
                    let errs = v.iter().filter(|x| x.is_err()).count();
                    let is_prefix = oks.len() <= want.len() && oks.iter().zip(&want).all(|(a, b)| *a == b);
                    // every failing read surfaces (three items), and the end only after the reader's own
                    is_prefix && (!*ended || (eof3.load(std::sync::atomic::Ordering::Relaxed) && errs == 3 && oks.len() == want.len()))
                }
                _ => false,
            };
            if !ok3 {
                fail(rep, "read-fault-resume(3 consecutive failures)", cfg, pats, data, si, spare, Some(k), format!("fault-free {:?}, got (items, ended) {:?}, reader reported end of stream: {}", want, got3, eof3.load(std::sync::atomic::Ordering::Relaxed)));
            }
        }
        if !ok2 {
            fail(rep, "read-fault-resume", cfg, pats, data, si, spare, Some(k), format!("iteration continued after the (transient) read error: fault-free {:?}, got (items, ended) {:?}, reader reported end of stream: {}", want, got2, eof.load(std::sync::atomic::Ordering::Relaxed)));
        }
        let mut w = FaultWriter { out: vec![], fail_after: None, kind_shift: 0 };
        let r = catch_unwind(AssertUnwindSafe(|| stream_replace(b, SchedReader { data, pos: 0, sched: SCHEDS[si], i: 0, fail_at: Some(k), repeat: 0, eof: None }, &mut w, &repl)));
        rep.case(true);
        if !matches!(&r, Ok(Err(_))) || !want_out.starts_with(&w.out) {
            fail(rep, "read-fault-replace", cfg, pats, data, si, spare, Some(k), format!("fault-free output '{}', written '{}', result {:?}", show(&want_out), show(&w.out), r.map(|x| x.map_err(|e| e.to_string()))));
        }
    }
    // C18: a writer that is full after k bytes (write returns Ok(0)): an error, and a prefix written
    if let Built::Top(t) = b {
        for k in 0..want_out.len() {
            let mut w = ZeroWriter { out: vec![], cap: k };
            let r = catch_unwind(AssertUnwindSafe(|| t.try_stream_replace_all(SchedReader { data, pos: 0, sched: SCHEDS[si], i: 0, fail_at: None, repeat: 0, eof: None }, &mut w, &repl)));
            rep.case(true);
            if !matches!(&r, Ok(Err(_))) || !want_out.starts_with(&w.out) {
                fail(rep, "full-writer", cfg, pats, data, si, spare, Some(k), format!("fault-free output '{}', written '{}' into a writer that takes {} bytes, result {:?}", show(&want_out), show(&w.out), k, r.map(|x| x.map_err(|e| e.to_string()))));
            }
        }
    }
    // C18: a write fault after k bytes
    for k in 0..want_out.len() {
        let mut w = FaultWriter { out: vec![], fail_after: Some(k), kind_shift: si + data.len() };
        let r = catch_unwind(AssertUnwindSafe(|| stream_replace(b, SchedReader { data, pos: 0, sched: SCHEDS[si], i: 0, fail_at: None, repeat: 0, eof: None }, &mut w, &repl)));
        rep.case(true);
        if !matches!(&r, Ok(Err(_))) || !want_out.starts_with(&w.out) {
            fail(rep, "write-fault", cfg, pats, data, si, spare, Some(k), format!("fault-free output '{}', written '{}', result {:?}", show(&want_out), show(&w.out), r.map(|x| x.map_err(|e| e.to_string()))));
        }
    }
}

/// one pattern of n bytes over {a,b} plus "xyz"; stream = zz P zzz P xyz z (z occurs in no
/// pattern), so the expected matches are known by construction (the naive oracle is quadratic)
fn huge_pattern_case(rep: &Report, n: usize, do_find: bool, do_replace: bool, faults: bool) {
    let p: Vec<u8> = (0..n).map(|i| b"ab"[((i * i / 7) ^ (i >> 5)) % 2]).collect();
    let pats = vec![p.clone(), b"xyz".to_vec()];
    let mut data = b"zz".to_vec();
    data.extend_from_slice(&p);
    data.extend_from_slice(b"zzz");
    data.extend_from_slice(&p);
    data.extend_from_slice(b"xyzz");
    let want = vec![M { pid: 0, start: 2, end: 2 + n }, M { pid: 0, start: 5 + n, end: 5 + 2 * n }, M { pid: 1, start: 5 + 2 * n, end: 8 + 2 * n }];
    let repl: Vec<Vec<u8>> = vec![b"<P>".to_vec(), b"<x>".to_vec()];
    let want_out = b"zz<P>zzz<P><x>z".to_vec();
    // (no DFA: building one for a million-state chain takes minutes)
    for (ei, engine) in [Engine::TopNonContig, Engine::TopContig, Engine::LowNonContig].into_iter().enumerate() {
        let cfg = Cfg { engine, sk: StartKindC::U, mk: Kind::Std, ci: false, pre: ei != 1, dd: None, bc: true };
        let b = match build(&cfg, &pats) {
            Ok(b) => b,
            Err(_) => continue,
        };
        aho_corasick::verif::set_buffer_spare_capacity(None);
        // (whole-buffer reads only: with a retained tail of n bytes every small read costs a roll of n bytes)
        for si in [4usize] {
            if faults {
                // one transient read fault in the middle; the caller keeps iterating: every match
                // is still reported and the iterator ends only after the reader reported the end
                let eof = std::sync::atomic::AtomicBool::new(false);
                let got = catch_unwind(AssertUnwindSafe(|| stream_find_resume(&b, SchedReader { data: &data, pos: 0, sched: SCHEDS[si], i: 0, fail_at: Some(n + 3), repeat: 0, eof: Some(&eof) })));
                rep.case(true);
                let ok = match &got {
                    Ok(Ok((v, ended))) => {
                        let oks: Vec<&M> = v.iter().filter_map(|x| x.as_ref().ok()).collect();
                        oks.len() <= want.len() && oks.iter().zip(&want).all(|(a, b)| *a == b) && (!*ended || eof.load(std::sync::atomic::Ordering::Relaxed))
                    }
                    _ => false,
                };
                if !ok {
                    rep.fail(Fail { key: format!("stream:huge:fault:{}", n), what: format!("stream find_iter with a {}-byte pattern [{}] and one transient read fault: got (items, ended) {:?}, reader reported end of stream: {} (the matches must be a prefix of {:?} and the iterator may end only after the reader reported the end)", n, cfg.encode(), got.map(|r| r.map(|(v, e)| (v.len(), e))), eof.load(std::sync::atomic::Ordering::Relaxed), want), argv: vec!["stream".into()] });
                }
                continue;
            }
            if do_find {
                let got = catch_unwind(AssertUnwindSafe(|| stream_find(&b, SchedReader { data: &data, pos: 0, sched: SCHEDS[si], i: 0, fail_at: None, repeat: 0, eof: None })));
                rep.case(true);
                let ok = matches!(&got, Ok(Ok(v)) if v.len() == want.len() && v.iter().zip(&want).all(|(a, b)| a.as_ref().ok() == Some(b)));
                if !ok {
                    rep.fail(Fail { key: format!("stream:huge:find:{}", n), what: format!("stream find_iter with a {}-byte pattern [{}], stream of {} bytes, read schedule {:?}: expected {:?}, got {:?}", n, cfg.encode(), data.len(), SCHEDS[si], want, got.map(|r| r.map(|v| v.len()))), argv: vec!["stream".into()] });
                }
            }
            if do_replace {
                let mut w = FaultWriter { out: vec![], fail_after: None, kind_shift: 0 };
                let r = catch_unwind(AssertUnwindSafe(|| stream_replace(&b, SchedReader { data: &data, pos: 0, sched: SCHEDS[si], i: 0, fail_at: None, repeat: 0, eof: None }, &mut w, &repl)));
                rep.case(true);
                if !matches!(&r, Ok(Ok(()))) || w.out != want_out {
                    rep.fail(Fail { key: format!("stream:huge:replace:{}", n), what: format!("stream replacement with a {}-byte pattern [{}]: {} bytes written, expected '{}'", n, cfg.encode(), w.out.len(), show(&want_out)), argv: vec!["stream".into()] });
                }
            }
        }
    }
}

fn long_pattern_case(rep: &Report, longpat: &[u8]) {
    let pats = vec![longpat.to_vec(), b"abba".to_vec()];
    let mut data: Vec<u8> = vec![b'b'; 70_000];
    data.extend_from_slice(longpat);
    data.extend(vec![b'a'; 70_000]);
    data.extend_from_slice(b"babbab");
    data.extend_from_slice(longpat);
    for (ei, engine) in [Engine::TopAuto, Engine::LowContig, Engine::LowDfa, Engine::LowNonContig].into_iter().enumerate() {
        let cfg = Cfg { engine, sk: StartKindC::U, mk: Kind::Std, ci: false, pre: ei % 2 == 1, dd: None, bc: true };
        if let Ok(b) = build(&cfg, &pats) {
            aho_corasick::verif::set_buffer_spare_capacity(None);
            for si in [0usize, 4, 6] {
                if si == 0 && engine != Engine::TopAuto {
                    continue;
                }
                check_one(rep, &cfg, &b, &pats, &data, si, None, false, true, si != 0);
            }
        }
    }
}

/// streams longer than any internal buffer or size threshold (1 MiB + 1, 3 MB): the stream APIs
/// of the front end equal the in-memory ones
fn large_stream_case(rep: &Report, do_find: bool, do_replace: bool) {
    let pats: Vec<Vec<u8>> = vec![b"needle".to_vec(), b"hay".to_vec(), b"stack!".to_vec()];
    let repl: Vec<Vec<u8>> = vec![b"N".to_vec(), b"".to_vec(), b"<stack>".to_vec()];
    for total in [(1usize << 20) - 1, 1 << 20, (1 << 20) + 1, 3_000_000] {
        let mut data: Vec<u8> = Vec::with_capacity(total);
        let unit = b"..hay...needle....stack!.......";
        while data.len() < total {
            let k = (total - data.len()).min(unit.len());
            data.extend_from_slice(&unit[..k]);
        }
        for engine in [Engine::TopAuto, Engine::TopNonContig] {
            let cfg = Cfg { engine, sk: StartKindC::U, mk: Kind::Std, ci: false, pre: true, dd: None, bc: true };
            let t = match build(&cfg, &pats) {
                Ok(Built::Top(t)) => t,
                _ => continue,
            };
            aho_corasick::verif::set_buffer_spare_capacity(None);
            if do_replace {
                let want = t.replace_all_bytes(&data, &repl);
                let mut w = FaultWriter { out: vec![], fail_after: None, kind_shift: 0 };
                let r = catch_unwind(AssertUnwindSafe(|| t.try_stream_replace_all(SchedReader { data: &data, pos: 0, sched: SCHEDS[4], i: 0, fail_at: None, repeat: 0, eof: None }, &mut w, &repl)));
                rep.case(true);
                if !matches!(&r, Ok(Ok(()))) || w.out != want {
                    rep.fail(Fail { key: format!("stream:large:replace:{}", total), what: format!("stream replacement of a {}-byte stream [{}]: {} bytes written, the in-memory replacement has {} ({:?})", total, cfg.encode(), w.out.len(), want.len(), r.map(|x| x.map_err(|e| e.to_string()))), argv: vec!["stream".into()] });
                }
                let mut w2 = FaultWriter { out: vec![], fail_after: None, kind_shift: 0 };
                let mut nseen = 0usize;
                let r2 = catch_unwind(AssertUnwindSafe(|| t.try_stream_replace_all_with(SchedReader { data: &data, pos: 0, sched: SCHEDS[4], i: 0, fail_at: None, repeat: 0, eof: None }, &mut w2, |m, _b, w| { nseen += 1; w.write_all(&repl[m.pattern().as_usize()]) })));
                rep.case(true);
                if !matches!(&r2, Ok(Ok(()))) || w2.out != want {
                    rep.fail(Fail { key: format!("stream:large:replace_with:{}", total), what: format!("stream replacement (closure) of a {}-byte stream [{}]: {} bytes written, expected {}", total, cfg.encode(), w2.out.len(), want.len()), argv: vec!["stream".into()] });
                }
            }
            if do_find {
                let want: Vec<M> = t.find_iter(&data).map(cv).collect();
                let got = catch_unwind(AssertUnwindSafe(|| stream_find(&Built::Top(t.clone()), SchedReader { data: &data, pos: 0, sched: SCHEDS[4], i: 0, fail_at: None, repeat: 0, eof: None })));
                rep.case(true);
                let ok = matches!(&got, Ok(Ok(v)) if v.len() == want.len() && v.iter().zip(&want).all(|(a, b)| a.as_ref().ok() == Some(b)));
                if !ok {
                    rep.fail(Fail { key: format!("stream:large:find:{}", total), what: format!("stream find_iter over a {}-byte stream [{}] differs from the in-memory iterator ({} matches expected)", total, cfg.encode(), want.len()), argv: vec!["stream".into()] });
                }
            }
        }
    }
}

pub fn run(args: &Args) -> Report {
    let thorough = args.thorough();
    let seed = args.num("seed", 0);
    let faults = args.get("faults", "0") == "1";
    let asp = args.get("aspects", if faults { "" } else { "find,replace" });
    let do_find = asp.contains("find");
    let do_replace = asp.contains("replace");
    let rep = Report::new(
        &format!("stream[{}{}]", asp, if faults { "+faults" } else { "" }),
        format!("non-empty pattern lists over {{a,b}} (<=3 patterns of length 1..3{}) + long-pattern lists; streams = all strings over {{a,b}} up to length {} + random streams up to 40 bytes; read schedules {:?}; roll-buffer spare capacities {:?} (hook H2; None = the default 64 KiB); {}",
                if thorough { "" } else { ", 3-lists sampled 1/9" }, if thorough { 7 } else { 5 }, SCHEDS, SPARES,
                if faults { "a read fault at every byte position and a write fault after every output length" } else { "no faults" }),
        "case = (pattern list, configuration, stream, read schedule, capacity[, fault position]); non-trivial = the stream contains a match (fault cases always count)".into(),
    );
    if args.has("one-cfg") {
        let cfg = Cfg::parse(&args.get("one-cfg", ""));
        let pats = gen::dec_pats(&args.get("one-pats", "-"));
        let data = gen::unhex(&args.get("one-data", "x")[1..]);
        let si = args.num("one-sched", 0);
        let spare = args.get("one-spare", "-").parse().ok();
        if let Ok(b) = build(&cfg, &pats) {
            check_one(&rep, &cfg, &b, &pats, &data, si, spare, args.get("one-fault", "-") != "-", true, true);
        }
        return rep;
    }
    let pool = gen::strings(b"ab", 1, 3);
    let mut lists = gen::lists(&pool, 3, if thorough { 1 } else { 9 }, seed);
    lists.push(vec![b"abababab".to_vec(), b"bab".to_vec()]);
    lists.push(vec![b"AB".to_vec()]);
    lists.push(vec![b"BAB".to_vec()]);
    lists.push(vec![b"A".to_vec(), b"Bb".to_vec()]);
    lists.push(vec![b"aaaaaaaaaaaa".to_vec(), b"aab".to_vec(), b"b".to_vec()]);
    // multi-byte UTF-8 text patterns (byte length well above the character count)
    lists.push(vec!["\u{20AC}\u{20AC}".as_bytes().to_vec(), "a\u{e9}b".as_bytes().to_vec()]);
    lists.push(vec!["\u{1F600}\u{1F600}\u{1F600}".as_bytes().to_vec(), b"b".to_vec()]);
    // no patterns at all: nothing to find, but the reader is still read (and its failures surface)
    lists.push(vec![]);
    // a pattern longer than 8 KiB: the retained tail (min) times 8 exceeds the default capacity
    let longpat: Vec<u8> = (0..9000usize).map(|i| b"ab"[(i * i / 7) % 2]).collect();
    long_pattern_case(&rep, &longpat);
    // pattern lengths at which a capacity formula may have no spare byte: exact powers of two at
    // and above the default capacity, and 1 MiB
    for n in [65_536usize, 131_072, 1 << 20] {
        huge_pattern_case(&rep, n, do_find || faults, do_replace, faults);
    }
    if !faults {
        large_stream_case(&rep, do_find, do_replace);
    }
    let mut datas = gen::strings(b"ab", 0, if thorough { 7 } else { 5 });
    let mut rng = Rng(0x57 + seed as u64);
    for _ in 0..(if thorough { 40 } else { 10 }) {
        let l = 8 + rng.below(33);
        datas.push(rng.bytes(b"ab", l));
    }
    // streams that contain the text patterns, whole and cut
    for t in ["a\u{20AC}\u{20AC}b\u{20AC}", "\u{1F600}\u{1F600}\u{1F600}\u{1F600}b", "ba\u{e9}b\u{20AC}\u{20AC}\u{20AC}a\u{e9}b"] {
        datas.push(t.as_bytes().to_vec());
    }
    let mut cfgs: Vec<Cfg> = [(Engine::LowNonContig, StartKindC::B), (Engine::LowContig, StartKindC::B), (Engine::LowDfa, StartKindC::U), (Engine::TopAuto, StartKindC::U), (Engine::TopContig, StartKindC::B)]
        .iter()
        .map(|&(engine, sk)| Cfg { engine, sk, mk: Kind::Std, ci: false, pre: true, dd: None, bc: true })
        .collect();
    // builder options that have no business with stream searching must not change it
    cfgs.push(Cfg { engine: Engine::TopAuto, sk: StartKindC::U, mk: Kind::Std, ci: false, pre: false, dd: Some(0), bc: false });
    cfgs.push(Cfg { engine: Engine::LowNonContig, sk: StartKindC::B, mk: Kind::Std, ci: true, pre: false, dd: Some(2), bc: true });
    cfgs.push(Cfg { engine: Engine::TopAuto, sk: StartKindC::U, mk: Kind::Std, ci: true, pre: true, dd: None, bc: true });
    // a DFA with both start states (front end and low level), and the other explicit kinds
    cfgs.push(Cfg { engine: Engine::LowDfa, sk: StartKindC::B, mk: Kind::Std, ci: false, pre: true, dd: None, bc: true });
    cfgs.push(Cfg { engine: Engine::TopDfa, sk: StartKindC::B, mk: Kind::Std, ci: false, pre: true, dd: None, bc: false });
    cfgs.push(Cfg { engine: Engine::TopNonContig, sk: StartKindC::U, mk: Kind::Std, ci: false, pre: true, dd: None, bc: true });
    par_for(&lists, |pats| {
        for (ci, cfg) in cfgs.iter().enumerate() {
            if !thorough && faults && ci % 2 == 1 {
                continue;
            }
            let b = match build(cfg, pats) {
                Ok(b) => b,
                Err(_) => continue,
            };
            for (di, data) in datas.iter().enumerate() {
                for si in 0..SCHEDS.len() {
                    for (pi, &spare) in SPARES.iter().enumerate() {
                        // thin the product deterministically in quick runs
                        if !thorough && (di + si + pi + ci) % (if faults { 5 } else { 2 }) != 0 {
                            continue;
                        }
                        // the fault product is cubic in the stream length: thinned in the thorough tier too
                        if thorough && faults && (di + si + pi + ci) % 3 != 0 {
                            continue;
                        }
                        check_one(&rep, cfg, &b, pats, data, si, spare, faults, do_find, do_replace);
                        if rep.full() {
                            return;
                        }
                    }
                }
            }
        }
    });
    rep.sample(format!("e.g. patterns {} on stream '{}' read as {:?} with spare capacity {:?}", show_pats(&lists[7]), show(&datas[20]), SCHEDS[3], SPARES[1]));
    rep
}
