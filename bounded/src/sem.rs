//! B1: the semantic contract SC of a built searcher, executed: for every pattern list of a bounded
//! family, every configuration and every haystack / span of a bounded space, the real API result
//! must equal the declarative definition (oracle.rs).
use crate::eng::{build, Built, Cfg, Engine, StartKindC};
use crate::gen::{self, enc_pats, hex, show, show_pats};
use crate::oracle::{self, Kind, M};
use crate::{par_for, Args, Fail, Report};
use std::panic::{catch_unwind, AssertUnwindSafe};

pub const A_FIND: u32 = 1;
pub const A_SPANS: u32 = 2;
pub const A_ITER: u32 = 4;
pub const A_ANCH: u32 = 8;
pub const A_EARLIEST: u32 = 16;
pub const A_OV: u32 = 32;
pub const A_ISMATCH: u32 = 64;
pub const A_OVANCH: u32 = 128;
pub const A_RECIPE: u32 = 256;

pub fn parse_aspects(s: &str) -> u32 {
    let mut a = 0;
    for t in s.split(',') {
        a |= match t {
            "find" => A_FIND,
            "spans" => A_SPANS,
            "iter" => A_ITER,
            "anch" => A_ANCH,
            "earliest" => A_EARLIEST,
            "ov" => A_OV,
            "ismatch" => A_ISMATCH,
            "ovanch" => A_OVANCH,
            "recipe" => A_RECIPE,
            "" => 0,
            x => panic!("aspect {}", x),
        };
    }
    a
}

pub fn cfg_set(name: &str, mk: Kind, ci: bool, thorough: bool) -> Vec<Cfg> {
    let c = |engine, sk, pre, dd, bc| Cfg { engine, sk, mk, ci, pre, dd, bc };
    use Engine::*;
    use StartKindC::*;
    let mut v = vec![];
    match name {
        // the reference: low-level noncontiguous NFA only
        "nc" => v.push(c(LowNonContig, B, false, None, true)),
        "low" | "all" => {
            for dd in [None, Some(0), Some(7)] {
                v.push(c(LowNonContig, B, false, dd, true));
            }
            for (dd, bc) in [(None, true), (Some(0), false), (Some(7), true), (Some(1), false), (Some(3), true)] {
                v.push(c(LowContig, B, false, dd, bc));
            }
            for (sk, bc) in [(U, true), (B, false), (A, true), (B, true), (A, false), (U, false)] {
                v.push(c(LowDfa, sk, false, None, bc));
            }
            if thorough {
                v.push(c(LowNonContig, B, true, Some(1), true));
                v.push(c(LowContig, B, true, Some(2), true));
                v.push(c(LowContig, B, false, Some(0), true));
                v.push(c(LowDfa, U, true, None, false));
            }
            if name == "all" {
                for (e, sk) in [(TopAuto, U), (TopAuto, B), (TopContig, B), (TopDfa, A), (TopNonContig, U), (TopAuto, A)] {
                    v.push(c(e, sk, true, None, true));
                }
                if thorough {
                    for (e, sk) in [(TopDfa, B), (TopDfa, U), (TopContig, U), (TopNonContig, B), (TopContig, A)] {
                        v.push(c(e, sk, true, None, true));
                    }
                    v.push(c(TopAuto, U, false, Some(0), false));
                }
            }
        }
        "top" => {
            for (e, sk) in [(TopAuto, U), (TopAuto, B), (TopContig, B), (TopDfa, A), (TopNonContig, U), (TopDfa, B)] {
                v.push(c(e, sk, true, None, true));
            }
        }
        x => panic!("cfg set {}", x),
    }
    v
}

pub struct Ctx<'a> {
    pub rep: &'a Report,
    pub pats: &'a [Vec<u8>],
    pub kind: Kind,
    pub ci: bool,
}

fn argv_for(ctx: &Ctx, cfg: &Cfg, aspect: &str, hay: &[u8], s: usize, e: usize, anch: bool) -> Vec<String> {
    vec![
        "sem-replay".into(),
        "--cfg".into(),
        cfg.encode(),
        "--pats".into(),
        if ctx.pats.is_empty() { "-".into() } else { enc_pats(ctx.pats) },
        "--hay".into(),
        format!("x{}", hex(hay)),
        "--span".into(),
        format!("{},{}", s, e),
        "--anch".into(),
        (anch as u8).to_string(),
        "--aspect".into(),
        aspect.into(),
    ]
}

fn report_fail<T: std::fmt::Debug>(ctx: &Ctx, cfg: &Cfg, aspect: &str, hay: &[u8], s: usize, e: usize, anch: bool, want: &T, got: &str) {
    let key = format!(
        "sem:{}:{}:ci={}:pats={}:hay={}:span={}..{}:anch={}",
        aspect,
        ctx.kind.name(),
        ctx.ci as u8,
        show_pats(ctx.pats),
        show(hay),
        s,
        e,
        anch as u8
    );
    ctx.rep.fail(Fail {
        key,
        what: format!(
            "{} on patterns {} (kind {}, ci {}) haystack '{}' span {}..{} anchored={} [{}]: expected {:?}, got {}",
            aspect,
            show_pats(ctx.pats),
            ctx.kind.name(),
            ctx.ci,
            show(hay),
            s,
            e,
            anch,
            cfg.encode(),
            want,
            got
        ),
        argv: argv_for(ctx, cfg, aspect, hay, s, e, anch),
    });
}

fn guard<T>(f: impl FnOnce() -> T) -> Result<T, String> {
    catch_unwind(AssertUnwindSafe(f)).map_err(|p| {
        let msg = p.downcast_ref::<String>().cloned().or(p.downcast_ref::<&str>().map(|s| s.to_string())).unwrap_or_default();
        format!("PANIC({})", msg)
    })
}

/// oracle answers for one (haystack, span, anchoring), computed once and shared by all
/// configurations
#[derive(Default)]
pub struct Want {
    find: Option<Option<M>>,
    occs: Option<Vec<M>>,
    iter: Option<Vec<M>>,
    ov: Option<Vec<M>>,
}

/// run one aspect on one (cfg, haystack, span); returns false if it failed
pub fn check_aspect(ctx: &Ctx, cfg: &Cfg, b: &Built, aspect: &str, hay: &[u8], s: usize, e: usize, anch: bool) -> bool {
    let mut w = Want::default();
    check_aspect_w(ctx, cfg, b, aspect, hay, s, e, anch, &mut w)
}

pub fn check_aspect_w(ctx: &Ctx, cfg: &Cfg, b: &Built, aspect: &str, hay: &[u8], s: usize, e: usize, anch: bool, w: &mut Want) -> bool {
    let pats = ctx.pats;
    let (kind, ci) = (ctx.kind, ctx.ci);
    match aspect {
        "find" => {
            let want = *w.find.get_or_insert_with(|| oracle::find(pats, ci, kind, hay, s, e, anch));
            let got = guard(|| b.try_find(hay, s, e, anch, false));
            let ok = matches!(&got, Ok(Ok(g)) if *g == want);
            if !ok {
                report_fail(ctx, cfg, aspect, hay, s, e, anch, &want, &format!("{:?}", got));
            }
            ok
        }
        "earliest" => {
            // C14: Some iff normal is Some; a genuine occurrence; end <= normal end
            let normal = guard(|| b.try_find(hay, s, e, anch, false));
            let got = guard(|| b.try_find(hay, s, e, anch, true));
            let ok = match (&normal, &got) {
                (Ok(Ok(n)), Ok(Ok(g))) => match (n, g) {
                    (None, None) => true,
                    (Some(n), Some(g)) => {
                        g.end <= n.end && w.occs.get_or_insert_with(|| oracle::occs_in(pats, ci, hay, s, e, anch)).contains(g)
                    }
                    _ => false,
                },
                _ => false,
            };
            if !ok {
                report_fail(ctx, cfg, aspect, hay, s, e, anch, &format!("earliest-ok relative to {:?}", normal), &format!("{:?}", got));
            }
            ok
        }
        "ismatch" => {
            let want = !w.occs.get_or_insert_with(|| oracle::occs_in(pats, ci, hay, s, e, anch)).is_empty();
            let t = match b.top() {
                Some(t) => t,
                None => return true,
            };
            let got = guard(|| {
                let inp = aho_corasick::Input::new(hay).span(s..e).anchored(if anch { aho_corasick::Anchored::Yes } else { aho_corasick::Anchored::No });
                t.is_match(inp)
            });
            let ok = matches!(&got, Ok(g) if *g == want);
            if !ok {
                report_fail(ctx, cfg, aspect, hay, s, e, anch, &want, &format!("{:?}", got));
            }
            ok
        }
        "iter" => {
            let want = w.iter.get_or_insert_with(|| oracle::iter(pats, ci, kind, hay, s, e, anch)).clone();
            let got = guard(|| b.try_find_iter(hay, s, e, anch));
            let mut ok = matches!(&got, Ok(Ok(g)) if *g == want);
            if !ok {
                report_fail(ctx, cfg, aspect, hay, s, e, anch, &want, &format!("{:?}", got));
            }
            // the iterator type obeys the Iterator protocol (nth, skip, step_by, count, last, size_hint, fold)
            if ok && s <= e && want.len() <= 6 && (s == 0 || e == hay.len()) {
                if let Ok(Err(why)) = guard(|| b.iter_protocol(hay, s, e, anch, &want, false)) {
                    ok = false;
                    report_fail(ctx, cfg, aspect, hay, s, e, anch, &want, &format!("Iterator protocol: {}", why));
                }
            }
            ok
        }
        "ov" => {
            // stepping, then 3 more calls that must stay quiet; and the iterator (unanchored only)
            let want = w.ov.get_or_insert_with(|| oracle::overlap_list(pats, ci, hay, s, e, anch)).clone();
            let got = guard(|| b.overlapping_steps(hay, s, e, anch, 3, want.len() + 5));
            let mut ok = matches!(&got, Ok(Ok((g, quiet))) if *g == want && *quiet);
            if !ok {
                report_fail(ctx, cfg, "ov", hay, s, e, anch, &want, &format!("{:?}", got));
            }
            if ok && !anch {
                let got = guard(|| b.try_find_overlapping_iter(hay, s, e, false));
                ok = matches!(&got, Ok(Ok(g)) if *g == want);
                if !ok {
                    report_fail(ctx, cfg, "ov", hay, s, e, anch, &want, &format!("iterator: {:?}", got));
                }
            }
            // the iterator type obeys the Iterator protocol (nth, skip, step_by, count, last, size_hint, fold)
            if ok && !anch && s <= e && want.len() <= 8 && (s == 0 || e == hay.len()) {
                if let Ok(Err(why)) = guard(|| b.iter_protocol(hay, s, e, false, &want, true)) {
                    ok = false;
                    report_fail(ctx, cfg, "ov", hay, s, e, anch, &want, &format!("Iterator protocol: {}", why));
                }
            }
            ok
        }
        "recipe" => {
            // C16: the caller-written search loop of the trait documentation, run on the sub-slice
            // hay[s..e] through the low-level API, returns what the built-in search returns
            let sub = &hay[s..e];
            let manual = match crate::eng::with_low(b, &mut |a| guard(|| crate::eng::recipe_find(a, sub))) {
                Some(m) => m,
                None => return true,
            };
            let got = guard(|| b.try_find(sub, 0, sub.len(), false, false));
            let ok = match (&manual, &got) {
                (Ok(Ok(m)), Ok(Ok(g))) => m == g,
                (Ok(Err(_)), Ok(Err(_))) => true,
                _ => false,
            };
            if !ok {
                report_fail(ctx, cfg, aspect, hay, s, e, anch, &format!("the documented manual loop's result {:?}", manual), &format!("{:?}", got));
            }
            ok
        }
        x => panic!("aspect {}", x),
    }
}

/// the raw API result of one aspect, as text (used by the relational modes, which compare two
/// real searchers with each other instead of with the definition)
pub fn api_result(b: &Built, aspect: &str, hay: &[u8], s: usize, e: usize, anch: bool) -> String {
    match aspect {
        "find" => format!("{:?}", guard(|| b.try_find(hay, s, e, anch, false))),
        "earliest" => format!("{:?}", guard(|| b.try_find(hay, s, e, anch, true)).map(|r| r.map(|o| o.is_some()))),
        "earliestfull" => format!("{:?}", guard(|| b.try_find(hay, s, e, anch, true))),
        "iter" => format!("{:?}", guard(|| b.try_find_iter(hay, s, e, anch))),
        "ov" => format!("{:?}", guard(|| b.overlapping_steps(hay, s, e, anch, 2, 4096))),
        x => panic!("aspect {}", x),
    }
}

fn shift(r: &str, by: usize) -> String {
    // rewrite every "start: N, end: M" by +by (results of a sub-slice search, moved back)
    let mut out = String::new();
    let mut rest = r;
    while let Some(i) = rest.find("start: ") {
        out.push_str(&rest[..i + 7]);
        rest = &rest[i + 7..];
        let j = rest.find(',').unwrap();
        let n: usize = rest[..j].parse().unwrap();
        out.push_str(&(n + by).to_string());
        rest = &rest[j..];
        let k = rest.find("end: ").unwrap();
        out.push_str(&rest[..k + 5]);
        rest = &rest[k + 5..];
        let j = rest.find(|c: char| !c.is_ascii_digit()).unwrap();
        let n: usize = rest[..j].parse().unwrap();
        out.push_str(&(n + by).to_string());
        rest = &rest[j..];
    }
    out.push_str(rest);
    out
}

/// relational checks: `kind` = every configuration vs the first one; `span` = span search vs
/// sub-slice search shifted, and bytes outside the span are irrelevant
pub fn check_hay_rel(ctx: &Ctx, built: &[(Cfg, Built)], hay: &[u8], aspects: u32, rel: &str) {
    let spans = spans_of(hay.len(), aspects & A_SPANS != 0 && hay.len() <= SPAN_CAP.load(std::sync::atomic::Ordering::Relaxed));
    let any = !oracle::occs_in(ctx.pats, ctx.ci, hay, 0, hay.len(), false).is_empty();
    let names: Vec<&str> = [("find", A_FIND), ("iter", A_ITER), ("ov", A_OV), ("earliest", A_EARLIEST)].iter().filter(|x| aspects & x.1 != 0).map(|x| x.0).collect();
    for &(s, e) in &spans {
        check_span_rel(ctx, built, hay, s, e, aspects, rel, any, &names);
        if ctx.rep.full() {
            return;
        }
    }
}

/// one span of the relational checks
pub fn check_span_rel(ctx: &Ctx, built: &[(Cfg, Built)], hay: &[u8], s: usize, e: usize, aspects: u32, rel: &str, any: bool, names: &[&str]) {
    {
        if s > e {
            return;
        }
        for anch in [false, true] {
            if anch && aspects & A_ANCH == 0 {
                continue;
            }
            for aspect in names {
                if *aspect == "ov" && ctx.kind != Kind::Std {
                    continue;
                }
                if rel == "kind" {
                    let mut reference: Option<(&Cfg, String)> = None;
                    // an earliest search returns the very same match for every representation
                    // (compared among the configurations with the same prefilter setting: a
                    // prefilter may legitimately confirm the normal match instead)
                    let mut reference_e: [Option<(&Cfg, String)>; 2] = [None, None];
                    for (cfg, b) in built {
                        if !cfg.supports(anch) {
                            continue;
                        }
                        if *aspect == "earliest" {
                            let r = api_result(b, "earliestfull", hay, s, e, anch);
                            ctx.rep.case(any);
                            match &reference_e[cfg.pre as usize] {
                                None => reference_e[cfg.pre as usize] = Some((cfg, r)),
                                Some((c0, r0)) => {
                                    if *r0 != r {
                                        report_fail(ctx, cfg, aspect, hay, s, e, anch, &format!("the same earliest-mode result as {} = {}", c0.encode(), r0), &r);
                                    }
                                }
                            }
                            continue;
                        }
                        let r = api_result(b, aspect, hay, s, e, anch);
                        ctx.rep.case(any);
                        match &reference {
                            None => reference = Some((cfg, r)),
                            Some((c0, r0)) => {
                                if *r0 != r {
                                    report_fail(ctx, cfg, aspect, hay, s, e, anch, &format!("the same result as {} = {}", c0.encode(), r0), &r);
                                }
                            }
                        }
                    }
                } else {
                    for (cfg, b) in built {
                        if !cfg.supports(anch) {
                            continue;
                        }
                        let whole = api_result(b, aspect, hay, s, e, anch);
                        let sub = shift(&api_result(b, aspect, &hay[s..e], 0, e - s, anch), s);
                        ctx.rep.case(any);
                        if whole != sub {
                            report_fail(ctx, cfg, aspect, hay, s, e, anch, &format!("the sub-slice result shifted = {}", sub), &whole);
                        }
                        // changing bytes outside the span never changes the result
                        let mut h2 = hay.to_vec();
                        for (i, x) in h2.iter_mut().enumerate() {
                            if i < s || i >= e {
                                *x = if *x == b'a' { b'b' } else { b'a' };
                            }
                        }
                        let other = api_result(b, aspect, &h2, s, e, anch);
                        ctx.rep.case(any);
                        if whole != other {
                            report_fail(ctx, cfg, aspect, hay, s, e, anch, &format!("independent of bytes outside the span; with them flipped = {}", other), &whole);
                        }
                    }
                }
            }
        }
    }
}

fn spans_of(len: usize, all: bool) -> Vec<(usize, usize)> {
    let mut v = vec![(0, len)];
    if all {
        for s in 0..=len {
            for e in s..=len {
                if (s, e) != (0, len) {
                    v.push((s, e));
                }
            }
        }
        // start = end + 1 (C10: yields no match)
        for k in 0..len {
            v.push((k + 1, k));
        }
    }
    v
}

pub static SPAN_CAP: std::sync::atomic::AtomicUsize = std::sync::atomic::AtomicUsize::new(5);

pub fn check_hay(ctx: &Ctx, built: &[(Cfg, Built)], hay: &[u8], aspects: u32) {
    // every span of short haystacks; longer haystacks are searched whole
    let spans = spans_of(hay.len(), aspects & A_SPANS != 0 && hay.len() <= SPAN_CAP.load(std::sync::atomic::Ordering::Relaxed));
    let any = !oracle::occs_in(ctx.pats, ctx.ci, hay, 0, hay.len(), false).is_empty();
    for &(s, e) in &spans {
        // exhausted spans (start == end + 1, C10/C14) go through the same aspects: the definition
        // yields nothing for them
        for anch in [false, true] {
            if anch && aspects & (A_ANCH | A_OVANCH) == 0 {
                continue;
            }
            let mut w = Want::default();
            for (cfg, b) in built {
                if !cfg.supports(anch) {
                    continue;
                }
                if aspects & A_FIND != 0 && (!anch || aspects & A_ANCH != 0) {
                    check_aspect_w(ctx, cfg, b, "find", hay, s, e, anch, &mut w);
                    ctx.rep.case(any);
                }
                if aspects & A_ITER != 0 && (!anch || aspects & A_ANCH != 0) {
                    check_aspect_w(ctx, cfg, b, "iter", hay, s, e, anch, &mut w);
                    ctx.rep.case(any);
                }
                if aspects & A_EARLIEST != 0 && (!anch || aspects & A_ANCH != 0) {
                    check_aspect_w(ctx, cfg, b, "earliest", hay, s, e, anch, &mut w);
                    ctx.rep.case(any);
                }
                if aspects & A_ISMATCH != 0 && cfg.is_top() && (!anch || aspects & A_ANCH != 0) {
                    check_aspect_w(ctx, cfg, b, "ismatch", hay, s, e, anch, &mut w);
                    ctx.rep.case(any);
                }
                if aspects & A_RECIPE != 0 && !anch && s <= e {
                    check_aspect_w(ctx, cfg, b, "recipe", hay, s, e, anch, &mut w);
                    ctx.rep.case(any);
                }
                if ctx.kind == Kind::Std && ((aspects & A_OV != 0 && !anch) || (aspects & A_OVANCH != 0 && anch)) {
                    check_aspect_w(ctx, cfg, b, "ov", hay, s, e, anch, &mut w);
                    ctx.rep.case(any);
                }
            }
        }
        if ctx.rep.full() {
            return;
        }
    }
}

pub struct Family {
    pub name: String,
    pub lists: Vec<Vec<Vec<u8>>>,
    pub hays: Vec<Vec<u8>>,
}

/// the pattern/haystack families of DESIGN.md 2.3
pub fn family(name: &str, thorough: bool, seed: usize) -> Family {
    let ab: &[u8] = b"ab";
    match name {
        // alphabet {a,b}: every list of <= 3 patterns of length <= 3 incl. empty + duplicates
        "small" => {
            let pool = gen::strings(ab, 0, 3);
            let lists = if thorough { gen::lists(&pool, 3, 2, seed) } else { gen::lists(&pool, 3, 9, seed) };
            Family { name: name.into(), lists, hays: gen::strings(ab, 0, if thorough { 7 } else { 6 }) }
        }
        // longer patterns over {a,b,c}, fewer lists: prefix/suffix/infix families
        "abc" => {
            let pool = gen::strings(b"abc", 0, 3);
            let pool4 = gen::strings(b"abc", 0, 4);
            let mut lists = gen::lists(&pool, 1, 1, 0);
            let two = gen::lists(&pool, 2, 1, 0);
            let stride = if thorough { 1 } else { 5 };
            lists.extend(two.into_iter().skip(pool.len() + seed % stride).step_by(stride));
            let mut rng = gen::Rng(0xC0FFEE + seed as u64);
            let n3 = if thorough { 4000 } else { 150 };
            for _ in 0..n3 {
                let k = 3 + rng.below(2);
                lists.push((0..k).map(|_| pool[rng.below(pool.len())].clone()).collect());
            }
            Family { name: name.into(), lists, hays: gen::strings(b"abc", 0, if thorough { 6 } else { 4 }) }
        }
        // deeper tries: 3..6 patterns of length 1..6 over {a,b,c} in random (non-alphabetical)
        // order; haystacks = short strings + per-list haystacks derived from the patterns
        "deep" => {
            let mut rng = gen::Rng(0xDEE9 + seed as u64);
            let n = if thorough { 20000 } else { 2500 };
            let mut lists = vec![];
            for i in 0..n {
                let k = 3 + rng.below(4);
                let maxl = if i % 3 == 0 { 4 } else { 6 };
                lists.push((0..k).map(|_| { let l = 1 + rng.below(maxl); rng.bytes(b"abc", l) }).collect());
            }
            Family { name: name.into(), lists, hays: gen::strings(b"abc", 0, 4) }
        }
        // long patterns (9..40 bytes) with short ones nested deep inside them, at their end, and
        // overlapping their tails; an unrelated pattern; both orders: states at depth >= 8 whose
        // failure chains run into match states (per-list haystacks walk every prefix / suffix pair)
        "nest" => {
            let mut rng = gen::Rng(0x4E57 + seed as u64);
            let mut lists: Vec<Vec<Vec<u8>>> = vec![
                vec![b"b".to_vec(), b"aaaaaaaaaabcd".to_vec()],
                vec![b"aaaaaaaaaabcd".to_vec(), b"b".to_vec()],
                vec![b"bc".to_vec(), b"xyxyxyxyxybcde".to_vec(), b"e".to_vec()],
            ];
            for i in 0..(if thorough { 400 } else { 60 }) {
                let l = 9 + rng.below(if i % 4 == 0 { 32 } else { 8 });
                let long = rng.bytes(b"ab", l);
                let at = 6 + rng.below(l - 6);
                let k = 1 + rng.below(3.min(l - at));
                let mut inner = long[at..at + k].to_vec();
                if i % 3 == 0 {
                    inner.push(b'c');
                }
                let mut list = vec![inner, long.clone()];
                if i % 2 == 0 {
                    list.reverse();
                }
                if i % 5 == 0 {
                    list.push(rng.bytes(b"abc", 2));
                }
                if i % 7 == 0 {
                    let mut t = long[l - 4..].to_vec();
                    t.extend_from_slice(b"ca");
                    list.insert(0, t);
                }
                lists.push(list);
            }
            Family { name: name.into(), lists, hays: vec![b"".to_vec(), b"aaaaaaaaaab b".to_vec(), b"aaaaaaaaaabc".to_vec()] }
        }
        // many patterns (21..64, beyond small-sort thresholds) with duplicated strings; lengths
        // 2..3 over 8 letters; activates the packed prefilter in default configurations
        "many" => {
            let mut rng = gen::Rng(0x3A27 + seed as u64);
            let alpha = b"abcdefgh";
            let mut lists = vec![];
            for _ in 0..(if thorough { 400 } else { 60 }) {
                let n = 21 + rng.below(44);
                let mut l: Vec<Vec<u8>> = (0..n).map(|_| { let k = 2 + rng.below(2); rng.bytes(alpha, k) }).collect();
                for _ in 0..(2 + rng.below(4)) {
                    let (i, j) = (rng.below(n), rng.below(n));
                    l[j] = l[i].clone();
                }
                lists.push(l);
            }
            Family { name: name.into(), lists, hays: gen::strings(b"ab", 0, 3) }
        }
        // byte-value boundaries: 0x00, 0x7F/0x80, 0xFE/0xFF (byte classes, last class, non-ASCII)
        "bytes" => {
            let alpha: &[u8] = &[0x00, b'a', 0x7F, 0x80, 0xFE, 0xFF];
            let pool = gen::strings(alpha, 1, 2);
            let mut lists = gen::lists(&pool, 1, 1, 0);
            let two = gen::lists(&pool, 2, 1, 0);
            let stride = if thorough { 1 } else { 4 };
            lists.extend(two.into_iter().skip(pool.len() + seed % stride).step_by(stride));
            Family { name: name.into(), lists, hays: gen::strings(alpha, 0, 3) }
        }
        // shape-directed lists (states with many transitions, sparse-chunk boundaries of the
        // contiguous NFA, a^k b, nested suffixes, > 100 patterns); haystacks derived per list
        "wide" => {
            let lists: Vec<Vec<Vec<u8>>> = crate::ac::wide_lists(thorough, seed).into_iter().filter(|l| l.iter().all(|p| p.len() <= 12)).collect();
            Family { name: name.into(), lists, hays: vec![vec![], b"z".to_vec()] }
        }
        // ASCII case-insensitivity: letters of both cases, boundary bytes and non-ASCII
        "ci" => {
            let alpha: &[u8] = &[b'a', b'A', b'z', b'Z', b'@', b'[', b'`', b'{', 0xC1, 0xE1, b'k', b'K', b'm', b'S'];
            let pool = gen::strings(alpha, 0, 2);
            let mut lists = gen::lists(&pool, 1, 1, 0);
            let mut rng = gen::Rng(0xC1 + seed as u64);
            for _ in 0..(if thorough { 3000 } else { 400 }) {
                let k = 2 + rng.below(2);
                lists.push((0..k).map(|_| { let l = rng.below(6); rng.bytes(alpha, l) }).collect());
            }
            let mut hays = gen::strings(alpha, 0, 2);
            for _ in 0..(if thorough { 600 } else { 150 }) {
                let l = 3 + rng.below(4);
                hays.push(rng.bytes(alpha, l));
            }
            Family { name: name.into(), lists, hays }
        }
        // ASCII case-insensitive lists of 4..10 patterns in which letterless patterns (digits,
        // punctuation, optionally one of >= 256 bytes) precede or follow lettered ones: the
        // prefilter builders see letters only after they may have given up (per-list haystacks
        // contain every pattern in both cases)
        "cimix" => {
            let mut rng = gen::Rng(0xC1C1 + seed as u64);
            let plain: Vec<Vec<u8>> = vec![b"12".to_vec(), b"34".to_vec(), b"56".to_vec(), b"78".to_vec(), b"90".to_vec(), b"#$".to_vec(), b"%&*".to_vec(), b"(+)".to_vec(), b"=-".to_vec(), b"~^".to_vec()];
            let mut lists = vec![];
            for i in 0..(if thorough { 1500 } else { 160 }) {
                let mut l: Vec<Vec<u8>> = vec![];
                if i % 7 == 3 {
                    l.push((0..(256 + rng.below(10))).map(|k| b"0123456789"[k % 10]).collect());
                }
                let k1 = rng.below(7);
                let mut pl = plain.clone();
                for _ in 0..k1 {
                    let j = rng.below(pl.len());
                    l.push(pl.remove(j));
                }
                let k2 = 1 + rng.below(3);
                for _ in 0..k2 {
                    let n = 2 + rng.below(6);
                    l.push(rng.bytes(b"abkKmSzZ@[`{", n));
                }
                if i % 5 == 4 {
                    let j = rng.below(l.len());
                    let x = l.remove(j);
                    l.insert(0, x);
                }
                lists.push(l);
            }
            // single-pattern lists (the substring-search prefilter has its own builder): only
            // uppercase letters, only lowercase, mixed, letters next to digits / punctuation / >= 0x80
            for one in [&b"FOO"[..], b"foo", b"fOo", b"HTTP/1.1", b"http/1.1", b"A1", b"a1", b"1A", b"Z", b"z", b"@[`{", b"K\xC3\x84K", b"\xFFX\xFF", b"QQQQQQQQQQQQQQQQQ", b"Ab#Cd$Ef%Gh&Ij*Kl(Mn)Op"] {
                lists.push(vec![one.to_vec()]);
            }
            for _ in 0..(if thorough { 200 } else { 24 }) {
                let n = 1 + rng.below(9);
                lists.push(vec![rng.bytes(b"ABKMSZ19#", n)]);
            }
            Family { name: name.into(), lists, hays: vec![b"".to_vec(), b"needle".to_vec()] }
        }
        x => panic!("family {}", x),
    }
}

/// per-list haystacks for `cimix`: every pattern in both letter cases, separated and adjacent
pub fn mix_hays(pats: &[Vec<u8>]) -> Vec<Vec<u8>> {
    let swap = |p: &Vec<u8>| -> Vec<u8> { p.iter().map(|&b| if b.is_ascii_alphabetic() { b ^ 0x20 } else { b }).collect() };
    let mut all = vec![b' '];
    let mut adj = vec![];
    let mut v = vec![];
    for p in pats.iter().filter(|p| p.len() <= 16) {
        all.extend(swap(p));
        all.push(b' ');
        all.extend(p.iter());
        all.push(b' ');
        adj.extend(swap(p));
        let mut one = b"xx ".to_vec();
        one.extend(swap(p));
        one.extend(b" yy");
        v.push(one);
    }
    v.push(all);
    v.push(adj);
    v
}

/// haystacks for `nest`: every pattern prefix followed by a foreign byte / nothing, then every pattern
pub fn nest_hays(pats: &[Vec<u8>]) -> Vec<Vec<u8>> {
    let mut v: Vec<Vec<u8>> = vec![];
    for p in pats {
        for i in 1..=p.len() {
            for mid in [&b""[..], b" ", b"c"] {
                for q in pats {
                    let mut h = p[..i].to_vec();
                    h.extend_from_slice(mid);
                    h.extend_from_slice(q);
                    v.push(h);
                }
            }
        }
    }
    v
}

/// haystacks that walk the trie of this particular list: every pattern prefix followed by every
/// pattern suffix, with and without a foreign byte after it
pub fn derived_hays(pats: &[Vec<u8>]) -> Vec<Vec<u8>> {
    let mut v: Vec<Vec<u8>> = vec![];
    let qs: Vec<&Vec<u8>> = if pats.len() > 24 { pats.iter().step_by(pats.len() / 24 + 1).collect() } else { pats.iter().collect() };
    for p in pats {
        for i in 1..=p.len() {
            for q in qs.iter() {
                for j in 0..q.len() {
                    let mut h = p[..i].to_vec();
                    h.extend_from_slice(&q[j..]);
                    if h.len() <= 12 {
                        let mut h2 = h.clone();
                        h2.push(b'z');
                        v.push(h);
                        v.push(h2);
                    }
                }
            }
        }
    }
    v.sort();
    v.dedup();
    if v.len() > 1500 {
        let st = v.len() / 1500 + 1;
        v = v.into_iter().step_by(st).collect();
    }
    v
}

pub fn run(args: &Args) -> Report {
    let thorough = args.thorough();
    let seed = args.num("seed", 0);
    let kinds: Vec<Kind> = args.get("kinds", "lf,ll").split(',').map(Kind::parse).collect();
    let aspects = parse_aspects(&args.get("aspects", "find,iter"));
    let cfgname = args.get("cfgs", "all");
    let rel = args.get("rel", "def");
    SPAN_CAP.store(args.num("spancap", 5), std::sync::atomic::Ordering::Relaxed);
    let fams: Vec<String> = args.get("families", "small").split(',').map(|s| s.to_string()).collect();
    let cis: Vec<bool> = match args.get("ci", "0").as_str() {
        "0" => vec![false],
        "1" => vec![true],
        _ => vec![false, true],
    };
    let rep = Report::new(
        &format!("sem[{}|{}|{}|{}]", args.get("kinds", "lf,ll"), args.get("aspects", "find,iter"), args.get("families", "small"), args.get("rel", "def")),
        format!(
            "families {:?} (tier {}): small = all lists of <=3 patterns of length <=3 over {{a,b}} incl. empty pattern and duplicates ({} of the 3-lists in quick), haystacks = all strings over the family alphabet up to length {} (every span for haystacks up to 5/6 bytes); other families = see bounded/src/sem.rs; configurations = set '{}'",
            fams,
            args.get("tier", "quick"),
            if thorough { "1/2" } else { "1/9" },
            if thorough { 8 } else { 6 },
            cfgname
        ),
        "case = (pattern list, match kind, ci, configuration, haystack, span, anchoring, API aspect); non-trivial = at least one pattern occurs in the haystack".into(),
    );
    for fname in &fams {
        let mut fam = family(fname, thorough, seed);
        if args.has("maxhay") {
            let mh = args.num("maxhay", 6);
            fam.hays.retain(|h| h.len() <= mh);
        }
        rep.count(&format!("pattern_lists[{}]", fname), fam.lists.len());
        rep.count(&format!("haystacks[{}]", fname), fam.hays.len());
        if let Some(l) = fam.lists.get(fam.lists.len() / 2) {
            rep.sample(format!("family {}: patterns {} vs haystack '{}'", fname, show_pats(l), show(&fam.hays[fam.hays.len() / 2])));
        }
        par_for(&fam.lists, |pats| {
            if rep.full() {
                return;
            }
            for &kind in &kinds {
                for &ci in &cis {
                    let ctx = Ctx { rep: &rep, pats, kind, ci };
                    let mut built = vec![];
                    for cfg in cfg_set(&cfgname, kind, ci, thorough) {
                        match guard(|| build(&cfg, pats)) {
                            Ok(Ok(b)) => built.push((cfg, b)),
                            other => {
                                let msg = match other { Ok(Err(e)) => e, Err(e) => e, _ => unreachable!() };
                                rep.fail(Fail {
                                    key: format!("sem:build:{}:{}", kind.name(), show_pats(pats)),
                                    what: format!("building {} for {} failed: {}", cfg.encode(), show_pats(pats), msg),
                                    argv: argv_for(&ctx, &cfg, "find", b"", 0, 0, false),
                                });
                            }
                        }
                    }
                    let mut derived = if fname == "cimix" { mix_hays(pats) } else if fname == "deep" || fname == "wide" || fname == "bytes" || fname == "many" || fname == "ci" { derived_hays(pats) } else if fname == "nest" { nest_hays(pats) } else { vec![] };
                    if ci {
                        // the other letter case at alternating positions
                        let toggled: Vec<Vec<u8>> = derived.iter().map(|h| h.iter().enumerate().map(|(i, &b)| if i % 2 == 0 && b.is_ascii_alphabetic() { b ^ 0x20 } else { b }).collect()).collect();
                        derived.extend(toggled);
                    }
                    for hay in fam.hays.iter().chain(derived.iter()) {
                        if rel != "def" {
                            check_hay_rel(&ctx, &built, hay, aspects, &rel);
                        } else {
                            check_hay(&ctx, &built, hay, aspects);
                        }
                        if rep.full() {
                            return;
                        }
                    }
                }
            }
        });
    }
    rep
}

/// re-run one recorded case and print expected / got
pub fn replay(args: &Args) -> Report {
    let cfg = Cfg::parse(&args.get("cfg", ""));
    let pats = gen::dec_pats(&args.get("pats", "-"));
    let hay = gen::unhex(&args.get("hay", "x")[1..]);
    let sp: Vec<usize> = args.get("span", "0,0").split(',').map(|x| x.parse().unwrap()).collect();
    let anch = args.get("anch", "0") == "1";
    let aspect = args.get("aspect", "find");
    let rep = Report::new("sem-replay", "one recorded case".into(), "replay".into());
    let ctx = Ctx { rep: &rep, pats: &pats, kind: cfg.mk, ci: cfg.ci };
    match guard(|| build(&cfg, &pats)) {
        Ok(Ok(b)) => {
            let ok = check_aspect(&ctx, &cfg, &b, &aspect, &hay, sp[0], sp[1], anch);
            rep.case(true);
            eprintln!("replay {} on {} hay '{}' span {:?} anch {}: {}", aspect, show_pats(&pats), show(&hay), sp, anch, if ok { "contract holds" } else { "CONTRACT VIOLATED" });
        }
        other => {
            rep.fail(Fail { key: "sem:build".into(), what: format!("build failed: {:?}", other.map(|r| r.map(|_| ()))), argv: vec![] });
        }
    }
    rep
}
