//! Building the real searchers in every configuration and a uniform way to call them.
use crate::oracle::{Kind, M};
use aho_corasick::{
    automaton::{Automaton, OverlappingState},
    dfa, nfa, AhoCorasick, AhoCorasickBuilder, AhoCorasickKind, Anchored, Input, Match, MatchKind, StartKind,
};

#[derive(Clone, Copy, PartialEq, Eq, Debug, Hash)]
pub enum Engine {
    TopAuto,
    TopNonContig,
    TopContig,
    TopDfa,
    LowNonContig,
    LowContig,
    LowDfa,
}

#[derive(Clone, Copy, PartialEq, Eq, Debug, Hash)]
pub struct Cfg {
    pub engine: Engine,
    pub sk: StartKindC,
    pub mk: Kind,
    pub ci: bool,
    pub pre: bool,
    pub dd: Option<usize>,
    pub bc: bool,
}

#[derive(Clone, Copy, PartialEq, Eq, Debug, Hash)]
pub enum StartKindC {
    U,
    A,
    B,
}

impl StartKindC {
    pub fn real(self) -> StartKind {
        match self {
            StartKindC::U => StartKind::Unanchored,
            StartKindC::A => StartKind::Anchored,
            StartKindC::B => StartKind::Both,
        }
    }
    pub fn supports(self, anchored: bool) -> bool {
        match self {
            StartKindC::U => !anchored,
            StartKindC::A => anchored,
            StartKindC::B => true,
        }
    }
}

pub fn mk_real(k: Kind) -> MatchKind {
    match k {
        Kind::Std => MatchKind::Standard,
        Kind::LF => MatchKind::LeftmostFirst,
        Kind::LL => MatchKind::LeftmostLongest,
    }
}

impl Cfg {
    pub fn encode(&self) -> String {
        format!(
            "{:?}|{:?}|{}|ci={}|pre={}|dd={}|bc={}",
            self.engine,
            self.sk,
            self.mk.name(),
            self.ci as u8,
            self.pre as u8,
            self.dd.map(|d| d.to_string()).unwrap_or("-".into()),
            self.bc as u8
        )
    }
    pub fn parse(s: &str) -> Cfg {
        let f: Vec<&str> = s.split('|').collect();
        let engine = match f[0] {
            "TopAuto" => Engine::TopAuto,
            "TopNonContig" => Engine::TopNonContig,
            "TopContig" => Engine::TopContig,
            "TopDfa" => Engine::TopDfa,
            "LowNonContig" => Engine::LowNonContig,
            "LowContig" => Engine::LowContig,
            "LowDfa" => Engine::LowDfa,
            x => panic!("engine {}", x),
        };
        let sk = match f[1] {
            "U" => StartKindC::U,
            "A" => StartKindC::A,
            "B" => StartKindC::B,
            x => panic!("sk {}", x),
        };
        let v = |i: usize| f[i].split('=').nth(1).unwrap().to_string();
        Cfg {
            engine,
            sk,
            mk: Kind::parse(f[2]),
            ci: v(3) == "1",
            pre: v(4) == "1",
            dd: if v(5) == "-" { None } else { Some(v(5).parse().unwrap()) },
            bc: v(6) == "1",
        }
    }
    /// the low-level NFAs support both anchoring modes whatever start kind is asked
    pub fn supports(&self, anchored: bool) -> bool {
        match self.engine {
            Engine::LowNonContig | Engine::LowContig => true,
            _ => self.sk.supports(anchored),
        }
    }
    pub fn is_top(&self) -> bool {
        matches!(self.engine, Engine::TopAuto | Engine::TopNonContig | Engine::TopContig | Engine::TopDfa)
    }
}

pub enum Built {
    Top(AhoCorasick),
    NC(nfa::noncontiguous::NFA),
    C(nfa::contiguous::NFA),
    D(dfa::DFA),
}

pub fn build(cfg: &Cfg, pats: &[Vec<u8>]) -> Result<Built, String> {
    let mk = mk_real(cfg.mk);
    match cfg.engine {
        Engine::TopAuto | Engine::TopNonContig | Engine::TopContig | Engine::TopDfa => {
            let mut b = AhoCorasickBuilder::new();
            b.match_kind(mk).start_kind(cfg.sk.real()).ascii_case_insensitive(cfg.ci).prefilter(cfg.pre).byte_classes(cfg.bc);
            if let Some(d) = cfg.dd {
                b.dense_depth(d);
            }
            b.kind(match cfg.engine {
                Engine::TopAuto => None,
                Engine::TopNonContig => Some(AhoCorasickKind::NoncontiguousNFA),
                Engine::TopContig => Some(AhoCorasickKind::ContiguousNFA),
                _ => Some(AhoCorasickKind::DFA),
            });
            b.build(pats).map(Built::Top).map_err(|e| e.to_string())
        }
        Engine::LowNonContig => {
            let mut b = nfa::noncontiguous::Builder::new();
            b.match_kind(mk).ascii_case_insensitive(cfg.ci).prefilter(cfg.pre);
            if let Some(d) = cfg.dd {
                b.dense_depth(d);
            }
            b.build(pats).map(Built::NC).map_err(|e| e.to_string())
        }
        Engine::LowContig => {
            let mut b = nfa::contiguous::Builder::new();
            b.match_kind(mk).ascii_case_insensitive(cfg.ci).prefilter(cfg.pre).byte_classes(cfg.bc);
            if let Some(d) = cfg.dd {
                b.dense_depth(d);
            }
            b.build(pats).map(Built::C).map_err(|e| e.to_string())
        }
        Engine::LowDfa => {
            let mut b = dfa::Builder::new();
            b.match_kind(mk).ascii_case_insensitive(cfg.ci).prefilter(cfg.pre).byte_classes(cfg.bc).start_kind(cfg.sk.real());
            b.build(pats).map(Built::D).map_err(|e| e.to_string())
        }
    }
}

pub fn cv(m: Match) -> M {
    M { pid: m.pattern().as_usize(), start: m.start(), end: m.end() }
}

fn input<'h>(h: &'h [u8], s: usize, e: usize, anch: bool, earliest: bool) -> Input<'h> {
    Input::new(h).span(s..e).anchored(if anch { Anchored::Yes } else { Anchored::No }).earliest(earliest)
}

macro_rules! with_aut {
    ($b:expr, $a:ident => $body:expr, $t:ident => $top:expr) => {
        match $b {
            Built::Top($t) => $top,
            Built::NC($a) => $body,
            Built::C($a) => $body,
            Built::D($a) => $body,
        }
    };
}

impl Built {
    pub fn try_find(&self, h: &[u8], s: usize, e: usize, anch: bool, earliest: bool) -> Result<Option<M>, String> {
        let inp = input(h, s, e, anch, earliest);
        with_aut!(self, a => Automaton::try_find(a, &inp).map(|o| o.map(cv)).map_err(|e| e.to_string()),
                        t => t.try_find(inp).map(|o| o.map(cv)).map_err(|e| e.to_string()))
    }
    pub fn try_find_iter(&self, h: &[u8], s: usize, e: usize, anch: bool) -> Result<Vec<M>, String> {
        let inp = input(h, s, e, anch, false);
        with_aut!(self, a => Automaton::try_find_iter(a, inp).map(|it| it.map(cv).collect()).map_err(|e| e.to_string()),
                        t => t.try_find_iter(inp).map(|it| it.map(cv).collect()).map_err(|e| e.to_string()))
    }
    pub fn try_find_overlapping_iter(&self, h: &[u8], s: usize, e: usize, anch: bool) -> Result<Vec<M>, String> {
        let inp = input(h, s, e, anch, false);
        with_aut!(self, a => Automaton::try_find_overlapping_iter(a, inp).map(|it| it.map(cv).collect()).map_err(|e| e.to_string()),
                        t => t.try_find_overlapping_iter(inp).map(|it| it.map(cv).collect()).map_err(|e| e.to_string()))
    }
    /// step an OverlappingState until it reports None, then `extra` more calls that must all be None.
    pub fn overlapping_steps(&self, h: &[u8], s: usize, e: usize, anch: bool, extra: usize, cap: usize) -> Result<(Vec<M>, bool), String> {
        let inp = input(h, s, e, anch, false);
        let mut st = OverlappingState::start();
        let mut out = vec![];
        let mut quiet = true;
        loop {
            with_aut!(self, a => Automaton::try_find_overlapping(a, &inp, &mut st).map_err(|e| e.to_string())?,
                            t => t.try_find_overlapping(inp.clone(), &mut st).map_err(|e| e.to_string())?);
            match st.get_match() {
                Some(m) => out.push(cv(m)),
                None => break,
            }
            if out.len() > cap {
                return Ok((out, false));
            }
        }
        for _ in 0..extra {
            with_aut!(self, a => Automaton::try_find_overlapping(a, &inp, &mut st).map_err(|e| e.to_string())?,
                            t => t.try_find_overlapping(inp.clone(), &mut st).map_err(|e| e.to_string())?);
            if st.get_match().is_some() {
                quiet = false;
            }
        }
        Ok((out, quiet))
    }
    /// the non-overlapping (resp. overlapping) iterator type of this searcher obeys the Iterator protocol
    pub fn iter_protocol(&self, h: &[u8], s: usize, e: usize, anch: bool, want: &[M], overlapping: bool) -> Result<(), String> {
        let inp = input(h, s, e, anch, false);
        if overlapping {
            with_aut!(self, a => crate::gen::iter_protocol(&|| Automaton::try_find_overlapping_iter(a, inp.clone()).unwrap(), &cv, want),
                            t => crate::gen::iter_protocol(&|| t.try_find_overlapping_iter(inp.clone()).unwrap(), &cv, want))
        } else {
            with_aut!(self, a => crate::gen::iter_protocol(&|| Automaton::try_find_iter(a, inp.clone()).unwrap(), &cv, want),
                            t => crate::gen::iter_protocol(&|| t.try_find_iter(inp.clone()).unwrap(), &cv, want))
        }
    }
    pub fn top(&self) -> Option<&AhoCorasick> {
        match self {
            Built::Top(t) => Some(t),
            _ => None,
        }
    }
    pub fn patterns_len(&self) -> usize {
        with_aut!(self, a => Automaton::patterns_len(a), t => t.patterns_len())
    }
    pub fn min_pattern_len(&self) -> usize {
        with_aut!(self, a => Automaton::min_pattern_len(a), t => t.min_pattern_len())
    }
    pub fn max_pattern_len(&self) -> usize {
        with_aut!(self, a => Automaton::max_pattern_len(a), t => t.max_pattern_len())
    }
    pub fn match_kind(&self) -> MatchKind {
        with_aut!(self, a => Automaton::match_kind(a), t => t.match_kind())
    }
}

/// run `f` with the low-level automaton behind a Built (None for the top-level searcher, whose
/// automaton is private).
pub fn with_low<R>(b: &Built, f: &mut dyn FnMut(&dyn DynAut) -> R) -> Option<R> {
    match b {
        Built::Top(_) => None,
        Built::NC(a) => Some(f(a)),
        Built::C(a) => Some(f(a)),
        Built::D(a) => Some(f(a)),
    }
}

/// the search routine printed in the documentation of the `Automaton` trait (unanchored, whole
/// haystack), written against the object-safe view
pub fn recipe_find(a: &dyn DynAut, haystack: &[u8]) -> Result<Option<M>, String> {
    let mut sid = a.start_state(false)?;
    let mut at = 0usize;
    let mut mat = None;
    let standard = a.match_kind() == MatchKind::Standard;
    let get_match = |sid: u32, at: usize| {
        let pid = a.match_pattern(sid, 0);
        let len = a.pattern_len(pid);
        M { pid, start: at - len, end: at }
    };
    if a.is_match(sid) {
        mat = Some(get_match(sid, at));
        if standard {
            return Ok(mat);
        }
    }
    while at < haystack.len() {
        sid = a.next_state(false, sid, haystack[at]);
        if a.is_special(sid) {
            if a.is_dead(sid) {
                return Ok(mat);
            } else if a.is_match(sid) {
                mat = Some(get_match(sid, at + 1));
                if standard {
                    return Ok(mat);
                }
            }
        }
        at += 1;
    }
    Ok(mat)
}

/// the same automaton seen directly and through the forwarding `impl Automaton for &A`
pub fn with_low_pair<R>(b: &Built, f: &mut dyn FnMut(&dyn DynAut, &dyn DynAut) -> R) -> Option<R> {
    match b {
        Built::Top(_) => None,
        Built::NC(a) => Some(f(a, &a)),
        Built::C(a) => Some(f(a, &a)),
        Built::D(a) => Some(f(a, &a)),
    }
}

/// object-safe view of the low-level Automaton API
pub trait DynAut {
    fn start_state(&self, anchored: bool) -> Result<u32, String>;
    fn next_state(&self, anchored: bool, sid: u32, b: u8) -> u32;
    fn is_special(&self, sid: u32) -> bool;
    fn is_dead(&self, sid: u32) -> bool;
    fn is_match(&self, sid: u32) -> bool;
    fn is_start(&self, sid: u32) -> bool;
    fn match_len(&self, sid: u32) -> usize;
    fn match_pattern(&self, sid: u32, i: usize) -> usize;
    fn pattern_len(&self, pid: usize) -> usize;
    fn patterns_len(&self) -> usize;
    fn min_pattern_len(&self) -> usize;
    fn max_pattern_len(&self) -> usize;
    fn has_prefilter(&self) -> bool;
    fn prefilter_find_in(&self, h: &[u8], s: usize, e: usize) -> Option<PreCand>;
    fn prefilter_debug(&self) -> String;
    fn match_kind(&self) -> MatchKind;
}

#[derive(Clone, Copy, Debug, PartialEq, Eq)]
pub enum PreCand {
    None,
    Match(M),
    Possible(usize),
}

fn an(a: bool) -> Anchored {
    if a {
        Anchored::Yes
    } else {
        Anchored::No
    }
}

impl<A: Automaton> DynAut for A {
    fn start_state(&self, anchored: bool) -> Result<u32, String> {
        Automaton::start_state(self, an(anchored)).map(|s| s.as_u32()).map_err(|e| e.to_string())
    }
    fn next_state(&self, anchored: bool, sid: u32, b: u8) -> u32 {
        Automaton::next_state(self, an(anchored), aho_corasick::automaton::StateID::new(sid as usize).unwrap(), b).as_u32()
    }
    fn is_special(&self, sid: u32) -> bool {
        Automaton::is_special(self, aho_corasick::automaton::StateID::new(sid as usize).unwrap())
    }
    fn is_dead(&self, sid: u32) -> bool {
        Automaton::is_dead(self, aho_corasick::automaton::StateID::new(sid as usize).unwrap())
    }
    fn is_match(&self, sid: u32) -> bool {
        Automaton::is_match(self, aho_corasick::automaton::StateID::new(sid as usize).unwrap())
    }
    fn is_start(&self, sid: u32) -> bool {
        Automaton::is_start(self, aho_corasick::automaton::StateID::new(sid as usize).unwrap())
    }
    fn match_len(&self, sid: u32) -> usize {
        Automaton::match_len(self, aho_corasick::automaton::StateID::new(sid as usize).unwrap())
    }
    fn match_pattern(&self, sid: u32, i: usize) -> usize {
        Automaton::match_pattern(self, aho_corasick::automaton::StateID::new(sid as usize).unwrap(), i).as_usize()
    }
    fn pattern_len(&self, pid: usize) -> usize {
        Automaton::pattern_len(self, aho_corasick::PatternID::new(pid).unwrap())
    }
    fn patterns_len(&self) -> usize {
        Automaton::patterns_len(self)
    }
    fn min_pattern_len(&self) -> usize {
        Automaton::min_pattern_len(self)
    }
    fn max_pattern_len(&self) -> usize {
        Automaton::max_pattern_len(self)
    }
    fn has_prefilter(&self) -> bool {
        Automaton::prefilter(self).is_some()
    }
    fn prefilter_find_in(&self, h: &[u8], s: usize, e: usize) -> Option<PreCand> {
        use aho_corasick::automaton::Candidate;
        Automaton::prefilter(self).map(|p| match p.find_in(h, aho_corasick::Span { start: s, end: e }) {
            Candidate::None => PreCand::None,
            Candidate::Match(m) => PreCand::Match(cv(m)),
            Candidate::PossibleStartOfMatch(i) => PreCand::Possible(i),
        })
    }
    fn prefilter_debug(&self) -> String {
        format!("{:?}", Automaton::prefilter(self))
    }
    fn match_kind(&self) -> MatchKind {
        Automaton::match_kind(self)
    }
}
