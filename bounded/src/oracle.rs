//! Declarative definitions taken from the property statements (not from the code under test):
//! occurrence, leftmost-first / leftmost-longest / standard choice, the non-overlapping
//! iterator with its empty-match rule, the overlapping listing, splicing.  Deliberately naive.

#[derive(Clone, Copy, PartialEq, Eq, Debug, PartialOrd, Ord, Hash)]
pub struct M {
    pub pid: usize,
    pub start: usize,
    pub end: usize,
}

#[derive(Clone, Copy, PartialEq, Eq, Debug, Hash)]
pub enum Kind {
    Std,
    LF,
    LL,
}

impl Kind {
    pub fn name(self) -> &'static str {
        match self {
            Kind::Std => "std",
            Kind::LF => "lf",
            Kind::LL => "ll",
        }
    }
    pub fn parse(s: &str) -> Kind {
        match s {
            "std" => Kind::Std,
            "lf" => Kind::LF,
            "ll" => Kind::LL,
            _ => panic!("kind {}", s),
        }
    }
}

/// C11: fold exactly the ASCII letters.
pub fn fold(ci: bool, b: u8) -> u8 {
    if ci && (0x41..=0x5A).contains(&b) {
        b + 0x20
    } else {
        b
    }
}

pub fn occ(pats: &[Vec<u8>], ci: bool, h: &[u8], p: usize, i: usize) -> bool {
    let pat = &pats[p];
    if i + pat.len() > h.len() {
        return false;
    }
    (0..pat.len()).all(|k| fold(ci, h[i + k]) == fold(ci, pat[k]))
}

/// every occurrence inside the span [s, e]; `anch` restricts to occurrences beginning at s.
pub fn occs_in(pats: &[Vec<u8>], ci: bool, h: &[u8], s: usize, e: usize, anch: bool) -> Vec<M> {
    let mut v = vec![];
    if s > e {
        return v;
    }
    for i in s..=e {
        if anch && i != s {
            break;
        }
        for p in 0..pats.len() {
            let j = i + pats[p].len();
            if j <= e && occ(pats, ci, h, p, i) {
                v.push(M { pid: p, start: i, end: j });
            }
        }
    }
    v
}

/// `a` strictly preferred to `b`.
pub fn better(k: Kind, a: &M, b: &M) -> bool {
    match k {
        Kind::LF => a.start < b.start || (a.start == b.start && a.pid < b.pid),
        Kind::LL => {
            a.start < b.start
                || (a.start == b.start && a.end > b.end)
                || (a.start == b.start && a.end == b.end && a.pid < b.pid)
        }
        Kind::Std => {
            a.end < b.end
                || (a.end == b.end && a.start < b.start)
                || (a.end == b.end && a.start == b.start && a.pid < b.pid)
        }
    }
}

pub fn find(pats: &[Vec<u8>], ci: bool, k: Kind, h: &[u8], s: usize, e: usize, anch: bool) -> Option<M> {
    let occs = occs_in(pats, ci, h, s, e, anch);
    let mut best: Option<M> = None;
    for o in occs {
        best = match best {
            None => Some(o),
            Some(b) => {
                if better(k, &o, &b) {
                    Some(o)
                } else {
                    Some(b)
                }
            }
        };
    }
    best
}

/// non-overlapping iterator (C01/C02/C09): repeat the search from the end of the previous match;
/// an empty match is never yielded at the offset where the previous match ended.
pub fn iter(pats: &[Vec<u8>], ci: bool, k: Kind, h: &[u8], s: usize, e: usize, anch: bool) -> Vec<M> {
    let mut out = vec![];
    let mut from = s;
    let mut last: Option<usize> = None;
    loop {
        if from > e {
            break;
        }
        let mut r = find(pats, ci, k, h, from, e, anch);
        if let Some(m) = r {
            if m.start == m.end && last == Some(m.end) {
                from += 1;
                if from > e {
                    break;
                }
                r = find(pats, ci, k, h, from, e, anch);
            }
        }
        match r {
            None => break,
            Some(m) => {
                out.push(m);
                from = m.end;
                last = Some(m.end);
            }
        }
    }
    out
}

/// C03: every occurrence once, by end asc, longer first, then supply order.
pub fn overlap_list(pats: &[Vec<u8>], ci: bool, h: &[u8], s: usize, e: usize, anch: bool) -> Vec<M> {
    let mut v = occs_in(pats, ci, h, s, e, anch);
    v.sort_by(|a, b| (a.end, a.start, a.pid).cmp(&(b.end, b.start, b.pid)));
    v
}

/// C12/C08: replace each match by repl[pid], copy everything else.
pub fn splice(h: &[u8], ms: &[M], repl: &[Vec<u8>]) -> Vec<u8> {
    let mut out = vec![];
    let mut last = 0;
    for m in ms {
        out.extend_from_slice(&h[last..m.start]);
        out.extend_from_slice(&repl[m.pid]);
        last = m.end;
    }
    out.extend_from_slice(&h[last..]);
    out
}
