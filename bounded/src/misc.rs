use crate::{Args, Report};
pub fn replace(_args: &Args) -> Report { Report::new("todo", "".into(), "".into()) }
pub fn cfgprod(_args: &Args) -> Report { Report::new("todo", "".into(), "".into()) }
pub fn meta(_args: &Args) -> Report { Report::new("todo", "".into(), "".into()) }
pub fn purity(_args: &Args) -> Report { Report::new("todo", "".into(), "".into()) }
pub fn faildepth(_args: &Args) -> Report { Report::new("todo", "".into(), "".into()) }
