//! B5 replace (C12), B6 configuration product (C13), B8 metadata (C20), purity differential
//! (C17), fail-link depth and per-byte work counters through hooks H1/H3 (C19).
use crate::ac::wide_lists;
use crate::eng::{build, cv, mk_real, Built, Cfg, Engine, StartKindC};
use crate::gen::{self, enc_pats, hex, show, show_pats, Rng};
use crate::oracle::{self, Kind, M};
use crate::sem::family;
use crate::{par_for, Args, Fail, Report};
use aho_corasick::automaton::{Automaton, OverlappingState};
use aho_corasick::{AhoCorasick, AhoCorasickBuilder, AhoCorasickKind, Anchored, Input, StartKind};
use std::panic::{catch_unwind, AssertUnwindSafe};

// ------------------------------------------------------------------------------------------
// C12 replace_all
// ------------------------------------------------------------------------------------------
fn is_cb(h: &str, i: usize) -> bool {
    h.is_char_boundary(i)
}

pub fn replace(args: &Args) -> Report {
    let thorough = args.thorough();
    let seed = args.num("seed", 0);
    // mode safety (C15): only a panic counts — whether the output equals the splice definition is
    // C12's business
    let safety = args.get("mode", "def") == "safety";
    let rep = Report::new(
        if safety { "replace[safety]" } else { "replace" },
        format!("byte patterns drawn from {{'', 'a', 'é', '€', C3, A9, E2 82, 82 AC, AC, 'aé', '€a'}} ({} lists of 1..3) x 3 match kinds x {{top-level auto, low-level noncontiguous, contiguous, DFA}}; haystacks: valid UTF-8 strings over {{a, é, €, 😀}} up to {} chars; replacement tables of valid strings; closure variants stopping after 0..3 matches",
                if thorough { "all 1463" } else { "sampled" }, if thorough { 5 } else { 4 }),
        "case = (pattern list, kind, engine, haystack, API variant); non-trivial = some pattern occurs".into(),
    );
    let atoms: Vec<Vec<u8>> = vec![
        vec![], b"a".to_vec(), "é".as_bytes().to_vec(), "€".as_bytes().to_vec(), vec![0xC3], vec![0xA9], vec![0xE2, 0x82], vec![0x82, 0xAC], vec![0xAC],
        "aé".as_bytes().to_vec(), "€a".as_bytes().to_vec(),
    ];
    let lists = gen::lists(&atoms, 3, if thorough { 1 } else { 7 }, seed);
    let chars = ["a", "é", "€", "😀"];
    let mut hays: Vec<String> = vec![String::new()];
    let maxc = if thorough { 5 } else { 4 };
    let mut frontier = vec![String::new()];
    for _ in 0..maxc {
        let mut next = vec![];
        for f in &frontier {
            for c in &chars {
                let mut s = f.clone();
                s.push_str(c);
                next.push(s);
            }
        }
        hays.extend(next.iter().cloned());
        frontier = next;
    }
    // the replacement table is indexed by pattern identifier: a table whose length is not the
    // pattern count is refused (documented panic) by every table-driven routine, before any output
    if !safety {
        use aho_corasick::automaton::Automaton;
        let pats: Vec<Vec<u8>> = vec![b"fox".to_vec(), b"dog".to_vec()];
        let tables: Vec<(&str, Vec<&str>)> = vec![("one entry too few", vec!["cat"]), ("one entry too many", vec!["cat", "mouse", "bird"]), ("empty", vec![])];
        let hay = "the quick fox and the lazy dog";
        for kind in [None, Some(AhoCorasickKind::NoncontiguousNFA), Some(AhoCorasickKind::ContiguousNFA), Some(AhoCorasickKind::DFA)] {
            let ac = AhoCorasickBuilder::new().kind(kind).build(&pats).unwrap();
            let nn = aho_corasick::nfa::noncontiguous::NFA::new(&pats).unwrap();
            let cn = aho_corasick::nfa::contiguous::NFA::new(&pats).unwrap();
            let df = aho_corasick::dfa::DFA::new(&pats).unwrap();
            for (tname, t) in &tables {
                let tb: Vec<&[u8]> = t.iter().map(|x| x.as_bytes()).collect();
                let calls: Vec<(&str, Box<dyn Fn() -> bool + '_>)> = vec![
                    ("AhoCorasick::replace_all", Box::new(|| { let _ = ac.replace_all(hay, t); true })),
                    ("AhoCorasick::replace_all_bytes", Box::new(|| { let _ = ac.replace_all_bytes(hay.as_bytes(), &tb); true })),
                    ("AhoCorasick::try_replace_all", Box::new(|| { let _ = ac.try_replace_all(hay, t); true })),
                    ("AhoCorasick::try_replace_all_bytes", Box::new(|| { let _ = ac.try_replace_all_bytes(hay.as_bytes(), &tb); true })),
                    ("AhoCorasick::try_stream_replace_all", Box::new(|| { let mut out = vec![]; let _ = ac.try_stream_replace_all(hay.as_bytes(), &mut out, &tb); true })),
                    ("noncontiguous::NFA try_replace_all", Box::new(|| { let _ = Automaton::try_replace_all(&nn, hay, t); true })),
                    ("contiguous::NFA try_replace_all_bytes", Box::new(|| { let _ = Automaton::try_replace_all_bytes(&cn, hay.as_bytes(), &tb); true })),
                    ("dfa::DFA try_replace_all", Box::new(|| { let _ = Automaton::try_replace_all(&df, hay, t); true })),
                    ("dfa::DFA try_stream_replace_all", Box::new(|| { let mut out = vec![]; let _ = Automaton::try_stream_replace_all(&df, hay.as_bytes(), &mut out, &tb); true })),
                ];
                for (name, f) in &calls {
                    rep.case(true);
                    if catch_unwind(AssertUnwindSafe(|| f())).is_ok() {
                        rep.fail(Fail { key: format!("replace:table-len:{}:{}", name, tname), what: format!("{} (kind {:?}) with a replacement table that is {} for 2 patterns returned instead of refusing the table", name, kind, tname), argv: vec!["replace".into()] });
                    }
                }
            }
        }
    }
    // long haystacks with many matches, empty and very long replacements, > 256 patterns
    {
        let pats: Vec<Vec<u8>> = (0..300u32).map(|i| format!("k{:03}", i).into_bytes()).collect();
        let repl_b: Vec<Vec<u8>> = (0..300usize).map(|i| if i % 3 == 0 { vec![] } else if i % 7 == 0 { vec![b'R'; 3000] } else { format!("<{}>", i).into_bytes() }).collect();
        let repl_s: Vec<String> = repl_b.iter().map(|b| String::from_utf8(b.clone()).unwrap()).collect();
        let mut h = String::new();
        for i in 0..400u32 {
            h.push_str(&format!("é{}k{:03}€", i, (i * 37) % 300));
        }
        for kind in [Kind::Std, Kind::LF] {
            for engine in [Engine::TopAuto, Engine::LowContig] {
                let cfg = Cfg { engine, sk: StartKindC::U, mk: kind, ci: false, pre: true, dd: None, bc: true };
                if let Ok(b) = build(&cfg, &pats) {
                    let ms = oracle::iter(&pats, false, kind, h.as_bytes(), 0, h.len(), false);
                    let want = oracle::splice(h.as_bytes(), &ms, &repl_b);
                    let got_b = catch_unwind(AssertUnwindSafe(|| match &b {
                        Built::Top(t) => t.try_replace_all_bytes(h.as_bytes(), &repl_b).map_err(|e| e.to_string()),
                        Built::C(a) => a.try_replace_all_bytes(h.as_bytes(), &repl_b).map_err(|e| e.to_string()),
                        _ => Err("n/a".into()),
                    }));
                    let got_s = catch_unwind(AssertUnwindSafe(|| match &b {
                        Built::Top(t) => t.try_replace_all(&h, &repl_s).map_err(|e| e.to_string()),
                        Built::C(a) => a.try_replace_all(&h, &repl_s).map_err(|e| e.to_string()),
                        _ => Err("n/a".into()),
                    }));
                    rep.case(true);
                    if !matches!(&got_b, Ok(Ok(g)) if *g == want) || !matches!(&got_s, Ok(Ok(g)) if g.as_bytes() == &want[..]) {
                        rfail(&rep, "replace_all on a long haystack with 300 patterns", &cfg, &pats[..3], &h.as_bytes()[..40], "output differs from the splice definition (or panic)".into());
                    }
                }
            }
        }
    }
    par_for(&lists, |pats| {
        let repl_s: Vec<String> = (0..pats.len()).map(|i| format!("<{}ü>", i)).collect();
        let repl_b: Vec<Vec<u8>> = repl_s.iter().map(|s| s.as_bytes().to_vec()).collect();
        for kind in [Kind::LF, Kind::LL, Kind::Std] {
            for engine in [Engine::TopAuto, Engine::LowNonContig, Engine::LowContig, Engine::LowDfa] {
                let cfg = Cfg { engine, sk: StartKindC::U, mk: kind, ci: false, pre: true, dd: None, bc: true };
                let b = match build(&cfg, pats) {
                    Ok(b) => b,
                    Err(_) => continue,
                };
                for h in &hays {
                    let hb = h.as_bytes();
                    let ms = oracle::iter(pats, false, kind, hb, 0, hb.len(), false);
                    // bytes
                    let want_b = oracle::splice(hb, &ms, &repl_b);
                    let got_b = catch_unwind(AssertUnwindSafe(|| match &b {
                        Built::Top(t) => t.try_replace_all_bytes(hb, &repl_b).map_err(|e| e.to_string()),
                        Built::NC(a) => a.try_replace_all_bytes(hb, &repl_b).map_err(|e| e.to_string()),
                        Built::C(a) => a.try_replace_all_bytes(hb, &repl_b).map_err(|e| e.to_string()),
                        Built::D(a) => a.try_replace_all_bytes(hb, &repl_b).map_err(|e| e.to_string()),
                    }));
                    rep.case(!ms.is_empty());
                    if (safety && got_b.is_err()) || (!safety && !matches!(&got_b, Ok(Ok(g)) if *g == want_b)) {
                        rfail(&rep, "replace_all_bytes", &cfg, pats, hb, format!("expected '{}', got {:?}", show(&want_b), got_b.map(|r| r.map(|v| show(&v)))));
                    }
                    // str: matches whose bounds are not char boundaries are skipped
                    let ms_s: Vec<M> = ms.iter().cloned().filter(|m| is_cb(h, m.start) && is_cb(h, m.end)).collect();
                    let want_s = oracle::splice(hb, &ms_s, &repl_b);
                    let got_s = catch_unwind(AssertUnwindSafe(|| match &b {
                        Built::Top(t) => t.try_replace_all(h, &repl_s).map_err(|e| e.to_string()),
                        Built::NC(a) => a.try_replace_all(h, &repl_s).map_err(|e| e.to_string()),
                        Built::C(a) => a.try_replace_all(h, &repl_s).map_err(|e| e.to_string()),
                        Built::D(a) => a.try_replace_all(h, &repl_s).map_err(|e| e.to_string()),
                    }));
                    rep.case(!ms.is_empty());
                    if (safety && got_s.is_err()) || (!safety && !matches!(&got_s, Ok(Ok(g)) if g.as_bytes() == &want_s[..])) {
                        rfail(&rep, "replace_all(&str)", &cfg, pats, hb, format!("expected '{}', got {:?}", show(&want_s), got_s.map(|r| r.map(|v| show(v.as_bytes())))));
                    }
                    // a table in which every replacement has exactly the byte length of its pattern
                    // (an implementation might patch such replacements in place)
                    if pats.iter().all(|p| !p.is_empty()) {
                        let same_s: Vec<String> = pats.iter().map(|p| "x".repeat(p.len())).collect();
                        let same_b: Vec<Vec<u8>> = same_s.iter().map(|s| s.as_bytes().to_vec()).collect();
                        let want_same = oracle::splice(hb, &ms_s, &same_b);
                        let got_same = catch_unwind(AssertUnwindSafe(|| match &b {
                            Built::Top(t) => t.try_replace_all(h, &same_s).map_err(|e| e.to_string()),
                            Built::NC(a) => a.try_replace_all(h, &same_s).map_err(|e| e.to_string()),
                            Built::C(a) => a.try_replace_all(h, &same_s).map_err(|e| e.to_string()),
                            Built::D(a) => a.try_replace_all(h, &same_s).map_err(|e| e.to_string()),
                        }));
                        rep.case(!ms.is_empty());
                        if (safety && got_same.is_err()) || (!safety && !matches!(&got_same, Ok(Ok(g)) if g.as_bytes() == &want_same[..])) {
                            rfail(&rep, "replace_all(&str, same-length table)", &cfg, pats, hb, format!("expected '{}', got {:?}", show(&want_same), got_same.map(|r| r.map(|v| show(v.as_bytes())))));
                        }
                        let want_same_b = oracle::splice(hb, &ms, &same_b);
                        let got_same_b = catch_unwind(AssertUnwindSafe(|| match &b {
                            Built::Top(t) => t.try_replace_all_bytes(hb, &same_b).map_err(|e| e.to_string()),
                            Built::NC(a) => a.try_replace_all_bytes(hb, &same_b).map_err(|e| e.to_string()),
                            Built::C(a) => a.try_replace_all_bytes(hb, &same_b).map_err(|e| e.to_string()),
                            Built::D(a) => a.try_replace_all_bytes(hb, &same_b).map_err(|e| e.to_string()),
                        }));
                        rep.case(!ms.is_empty());
                        if (safety && got_same_b.is_err()) || (!safety && !matches!(&got_same_b, Ok(Ok(g)) if *g == want_same_b)) {
                            rfail(&rep, "replace_all_bytes(same-length table)", &cfg, pats, hb, format!("expected '{}', got {:?}", show(&want_same_b), got_same_b.map(|r| r.map(|v| show(&v)))));
                        }
                    }
                    // closure variants with early stop after k matches: the remainder is copied verbatim
                    for stop in 0..=3usize {
                        let mut want = b"0123456789012345678901234567890123456789".to_vec();
                        let mut last = 0;
                        for (i, m) in ms.iter().enumerate() {
                            want.extend_from_slice(&hb[last..m.start]);
                            last = m.end;
                            want.extend_from_slice(b"{");
                            want.extend_from_slice(&hb[m.start..m.end]);
                            want.extend_from_slice(b"}");
                            if i + 1 > stop {
                                break;
                            }
                        }
                        want.extend_from_slice(&hb[last..]);
                        let mut seen: Vec<M> = vec![];
                        let got = catch_unwind(AssertUnwindSafe(|| {
                            let mut dst = b"0123456789012345678901234567890123456789".to_vec();
                            let mut n = 0;
                            let f = |m: &aho_corasick::Match, bytes: &[u8], dst: &mut Vec<u8>| {
                                seen.push(cv(*m));
                                dst.push(b'{');
                                dst.extend_from_slice(bytes);
                                dst.push(b'}');
                                n += 1;
                                n <= stop
                            };
                            match &b {
                                Built::Top(t) => t.try_replace_all_with_bytes(hb, &mut dst, f).map_err(|e| e.to_string()),
                                Built::NC(a) => a.try_replace_all_with_bytes(hb, &mut dst, f).map_err(|e| e.to_string()),
                                Built::C(a) => a.try_replace_all_with_bytes(hb, &mut dst, f).map_err(|e| e.to_string()),
                                Built::D(a) => a.try_replace_all_with_bytes(hb, &mut dst, f).map_err(|e| e.to_string()),
                            }
                            .map(|_| dst)
                        }));
                        rep.case(!ms.is_empty());
                        if (safety && got.is_err()) || (!safety && !matches!(&got, Ok(Ok(g)) if *g == want)) {
                            rfail(&rep, &format!("replace_all_with_bytes(stop after {})", stop + 1), &cfg, pats, hb, format!("expected '{}', got {:?}", show(&want), got.map(|r| r.map(|v| show(&v)))));
                        }
                    }
                    // &str closure variant, with a dst that already holds more than the haystack
                    let prefix = "PRE-FILLED-DESTINATION-LONGER-THAN-THE-HAYSTACK:";
                    let got = catch_unwind(AssertUnwindSafe(|| {
                        let mut dst = String::from(prefix);
                        let f = |m: &aho_corasick::Match, s: &str, dst: &mut String| {
                            dst.push('{');
                            dst.push_str(s);
                            dst.push('}');
                            let _ = m;
                            true
                        };
                        match &b {
                            Built::Top(t) => t.try_replace_all_with(h, &mut dst, f).map_err(|e| e.to_string()),
                            Built::NC(a) => a.try_replace_all_with(h, &mut dst, f).map_err(|e| e.to_string()),
                            Built::C(a) => a.try_replace_all_with(h, &mut dst, f).map_err(|e| e.to_string()),
                            Built::D(a) => a.try_replace_all_with(h, &mut dst, f).map_err(|e| e.to_string()),
                        }
                        .map(|_| dst)
                    }));
                    let mut want = prefix.as_bytes().to_vec();
                    let mut last = 0;
                    for m in &ms_s {
                        want.extend_from_slice(&hb[last..m.start]);
                        want.push(b'{');
                        want.extend_from_slice(&hb[m.start..m.end]);
                        want.push(b'}');
                        last = m.end;
                    }
                    want.extend_from_slice(&hb[last..]);
                    rep.case(!ms.is_empty());
                    if (safety && got.is_err()) || (!safety && !matches!(&got, Ok(Ok(g)) if g.as_bytes() == &want[..])) {
                        rfail(&rep, "replace_all_with(&str)", &cfg, pats, hb, format!("expected '{}', got {:?}", show(&want), got.map(|r| r.map(|v| show(v.as_bytes())))));
                    }
                    if rep.full() {
                        return;
                    }
                }
            }
        }
    });
    rep.sample(format!("e.g. patterns {} on '{}'", show_pats(&lists[lists.len() / 3]), hays[37]));
    rep
}

fn rfail(rep: &Report, what: &str, cfg: &Cfg, pats: &[Vec<u8>], h: &[u8], detail: String) {
    rep.fail(Fail {
        key: format!("replace:{}:{}:pats={}:hay={}", what, cfg.mk.name(), show_pats(pats), show(h)),
        what: format!("{} [{}] patterns {} haystack '{}': {}", what, cfg.encode(), show_pats(pats), show(h), detail),
        argv: vec!["replace".into(), "--note".into(), format!("{}|{}|x{}", cfg.encode(), enc_pats(pats), hex(h))],
    });
}

// ------------------------------------------------------------------------------------------
// C13 configuration product
// ------------------------------------------------------------------------------------------
#[derive(Clone, Copy, Debug, PartialEq, Eq)]
enum Outcome {
    Ok,
    Err,
    Panic,
    LatePanic,
}

const APIS: [&str; 17] = [
    "try_find", "find", "is_match", "try_find_iter", "find_iter", "try_find_overlapping", "find_overlapping", "try_find_overlapping_iter",
    "find_overlapping_iter", "try_stream_find_iter", "stream_find_iter", "try_stream_replace_all", "try_stream_replace_all_with",
    "try_replace_all_bytes", "replace_all_bytes", "try_replace_all", "replace_all",
];

fn classify<T>(r: std::thread::Result<Result<T, ()>>) -> Outcome {
    match r {
        Ok(Ok(_)) => Outcome::Ok,
        Ok(Err(_)) => Outcome::Err,
        Err(_) => Outcome::Panic,
    }
}

fn call_top(ac: &AhoCorasick, api: &str, hay: &[u8], anch: bool, npat: usize, span: Option<(usize, usize)>) -> Outcome {
    let inp = || {
        let i = Input::new(hay).anchored(if anch { Anchored::Yes } else { Anchored::No });
        match span {
            Some((st, e)) => i.span(st..e),
            None => i,
        }
    };
    let repl: Vec<Vec<u8>> = (0..npat).map(|_| b"r".to_vec()).collect();
    let repl_s: Vec<String> = (0..npat).map(|_| "r".to_string()).collect();
    let hs = String::from_utf8_lossy(hay).to_string();
    // an iterator that was constructed must never fail later: drain it under its own catch
    macro_rules! drain {
        ($mk:expr) => {{
            match catch_unwind(AssertUnwindSafe(|| $mk)) {
                Err(_) => Outcome::Panic,
                Ok(Err(_)) => Outcome::Err,
                Ok(Ok(it)) => match catch_unwind(AssertUnwindSafe(move || it.count())) {
                    Ok(_) => Outcome::Ok,
                    Err(_) => Outcome::LatePanic,
                },
            }
        }};
    }
    match api {
        "try_find" => classify(catch_unwind(AssertUnwindSafe(|| ac.try_find(inp()).map_err(|_| ())))),
        "find" => classify(catch_unwind(AssertUnwindSafe(|| Ok::<_, ()>(ac.find(inp()))))),
        "is_match" => classify(catch_unwind(AssertUnwindSafe(|| Ok::<_, ()>(ac.is_match(inp()))))),
        "try_find_iter" => drain!(ac.try_find_iter(inp()).map_err(|_| ())),
        "find_iter" => drain!(Ok::<_, ()>(ac.find_iter(inp()))),
        "try_find_overlapping" => classify(catch_unwind(AssertUnwindSafe(|| {
            let mut st = OverlappingState::start();
            let mut n = 0;
            loop {
                ac.try_find_overlapping(inp(), &mut st).map_err(|_| ())?;
                if st.get_match().is_none() || n > 64 {
                    break;
                }
                n += 1;
            }
            Ok::<_, ()>(())
        }))),
        "find_overlapping" => classify(catch_unwind(AssertUnwindSafe(|| {
            let mut st = OverlappingState::start();
            ac.find_overlapping(inp(), &mut st);
            Ok::<_, ()>(())
        }))),
        "try_find_overlapping_iter" => drain!(ac.try_find_overlapping_iter(inp()).map_err(|_| ())),
        "find_overlapping_iter" => drain!(Ok::<_, ()>(ac.find_overlapping_iter(inp()))),
        "try_stream_find_iter" => drain!(ac.try_stream_find_iter(hay).map_err(|_| ())),
        "stream_find_iter" => drain!(Ok::<_, ()>(ac.stream_find_iter(hay))),
        "try_stream_replace_all" => classify(catch_unwind(AssertUnwindSafe(|| {
            let mut out = vec![];
            ac.try_stream_replace_all(hay, &mut out, &repl).map_err(|_| ())
        }))),
        "try_stream_replace_all_with" => classify(catch_unwind(AssertUnwindSafe(|| {
            let mut out = vec![];
            ac.try_stream_replace_all_with(hay, &mut out, |_, _, _| Ok(())).map_err(|_| ())
        }))),
        "try_replace_all_bytes" => classify(catch_unwind(AssertUnwindSafe(|| ac.try_replace_all_bytes(hay, &repl).map_err(|_| ())))),
        "replace_all_bytes" => classify(catch_unwind(AssertUnwindSafe(|| Ok::<_, ()>(ac.replace_all_bytes(hay, &repl))))),
        "try_replace_all" => classify(catch_unwind(AssertUnwindSafe(|| ac.try_replace_all(&hs, &repl_s).map_err(|_| ())))),
        "replace_all" => classify(catch_unwind(AssertUnwindSafe(|| Ok::<_, ()>(ac.replace_all(&hs, &repl_s))))),
        x => panic!("api {}", x),
    }
}

/// the four-clause definition of the statement
fn rejected(api: &str, mk: Kind, sk: StartKindC, anch: bool, has_empty: bool) -> bool {
    let overlapping = api.contains("overlapping");
    let stream = api.contains("stream");
    let uses_input = !(stream || api.contains("replace"));
    let want_anch = uses_input && anch;
    (!sk.supports(want_anch))
        || ((overlapping || stream) && mk != Kind::Std)
        || (api.contains("overlapping_iter") && want_anch)
        || (stream && has_empty)
}

pub fn cfgprod(args: &Args) -> Report {
    let thorough = args.thorough();
    let rep = Report::new(
        "cfgprod",
        "the full product match kind (3) x start kind (3) x requested anchoring (2) x engine kind (auto + 3 explicit) x 17 top-level search APIs x {with, without} an empty pattern, on several pattern lists and haystacks each (exhaustive over configurations)".into(),
        "case = (configuration, API, pattern list, haystack): outcome class Ok / Err / panic must equal the four-clause rejection rule; fallible APIs never panic, infallible ones never return when rejected, a constructed iterator never panics while drained".into(),
    );
    // rejection depends on the final option values only, not on how the builder got there
    builder_reuse(&rep, "cfgprod");
    let lists: Vec<Vec<Vec<u8>>> = vec![
        vec![],
        vec![b"a".to_vec()],
        vec![b"ab".to_vec(), b"b".to_vec(), b"abc".to_vec()],
        vec![b"".to_vec()],
        vec![b"a".to_vec(), b"".to_vec()],
        vec![b"bc".to_vec(), b"".to_vec(), b"abcd".to_vec()],
        (0..120u8).map(|i| vec![b'a' + i % 26, b'0' + i % 10, i]).collect(),
    ];
    let big: Vec<u8> = vec![b'~'; 70_000];   // beyond any size threshold, no byte of any pattern
    // the haystack of the span cases (spans must be valid for it: start <= end + 1 <= len + 1)
    const ABCD: &[u8] = b"abcd";
    let mut hays: Vec<&[u8]> = if thorough { vec![b"", b"a", b"abcd", b"xxabcxx", b"zzzzzz", b"abababab"] } else { vec![b"", b"abcd", b"zzab"] };
    hays.push(&big);
    let mut items = vec![];
    for mk in [Kind::Std, Kind::LF, Kind::LL] {
        for sk in [StartKindC::U, StartKindC::A, StartKindC::B] {
            for engine in [Engine::TopAuto, Engine::TopNonContig, Engine::TopContig, Engine::TopDfa] {
                for l in &lists {
                    items.push((mk, sk, engine, l.clone()));
                }
            }
        }
    }
    par_for(&items, |(mk, sk, engine, pats)| {
        let cfg = Cfg { engine: *engine, sk: *sk, mk: *mk, ci: false, pre: true, dd: None, bc: true };
        let b = match build(&cfg, pats) {
            Ok(Built::Top(t)) => t,
            _ => {
                rep.fail(Fail { key: format!("cfgprod:build:{}", cfg.encode()), what: format!("build failed for {}", cfg.encode()), argv: vec![] });
                return;
            }
        };
        let has_empty = pats.iter().any(|p| p.is_empty());
        for api in APIS {
            for anch in [false, true] {
                // the rule does not look at the span: whole haystack, an empty span, an exhausted span (start = end + 1)
                for (hay, span) in hays.iter().map(|h| (h, None)).chain([(&ABCD, Some((2usize, 2usize))), (&ABCD, Some((1, 0))), (&ABCD, Some((4, 3)))]) {
                    let got = call_top(&b, api, hay, anch, pats.len(), span);
                    let rej = rejected(api, *mk, *sk, anch, has_empty);
                    let fallible = api.starts_with("try_");
                    let want = if !rej { Outcome::Ok } else if fallible { Outcome::Err } else { Outcome::Panic };
                    rep.case(rej);
                    if got != want {
                        rep.fail(Fail {
                            key: format!("cfgprod:{}:{}:{:?}:anch={}:{:?}:empty={}", api, mk.name(), sk, *&anch as u8, engine, has_empty as u8),
                            what: format!("{} on match kind {} start kind {:?} requested anchored={} engine {:?} patterns {} haystack '{}' span {:?}: expected {:?}, got {:?}", api, mk.name(), sk, anch, engine, show_pats(&pats[..pats.len().min(4)]), show(&hay[..hay.len().min(40)]), span, want, got),
                            argv: vec!["cfgprod".into()],
                        });
                    }
                }
            }
        }
    });
    rep.sample("e.g. is_match with Anchored::Yes on a StartKind::Unanchored searcher must panic for every engine kind".into());
    rep
}

// ------------------------------------------------------------------------------------------
// C20 metadata / building
// ------------------------------------------------------------------------------------------
/// building from iterators whose size_hint is only a bound (run in a child process: an attempt to
/// allocate for the hinted size aborts the process instead of panicking)
fn iter_shapes(rep: &Report) {
        struct Loose<'a> { items: &'a [Vec<u8>], i: usize, hint: (usize, Option<usize>) }
        impl<'a> Iterator for Loose<'a> {
            type Item = &'a Vec<u8>;
            fn next(&mut self) -> Option<&'a Vec<u8>> {
                let x = self.items.get(self.i);
                self.i += 1;
                x
            }
            fn size_hint(&self) -> (usize, Option<usize>) {
                self.hint
            }
        }
        let pats: Vec<Vec<u8>> = vec![b"foo".to_vec(), b"".to_vec(), b"barbaz".to_vec(), b"foo".to_vec()];
        let hints = [(0usize, None), (0, Some(usize::MAX)), (0, Some(usize::MAX / 2)), (0, Some(1 << 40)), (1, Some(usize::MAX - 1)), (4, Some(4)), (0, Some(4))];
        for hint in hints {
            let mk = || Loose { items: &pats, i: 0, hint };
            let builds: Vec<(&str, Box<dyn Fn() -> Result<(usize, usize, usize), String> + '_>)> = vec![
                ("AhoCorasick::new", Box::new(|| AhoCorasick::new(mk()).map(|a| (a.patterns_len(), a.min_pattern_len(), a.max_pattern_len())).map_err(|e| e.to_string()))),
                ("AhoCorasickBuilder(kind DFA)::build", Box::new(|| AhoCorasickBuilder::new().kind(Some(AhoCorasickKind::DFA)).build(mk()).map(|a| (a.patterns_len(), a.min_pattern_len(), a.max_pattern_len())).map_err(|e| e.to_string()))),
                ("AhoCorasickBuilder(kind ContiguousNFA, leftmost-first)::build", Box::new(|| AhoCorasickBuilder::new().kind(Some(AhoCorasickKind::ContiguousNFA)).match_kind(aho_corasick::MatchKind::LeftmostFirst).build(mk()).map(|a| (a.patterns_len(), a.min_pattern_len(), a.max_pattern_len())).map_err(|e| e.to_string()))),
                ("noncontiguous::NFA::new", Box::new(|| { use aho_corasick::automaton::Automaton; aho_corasick::nfa::noncontiguous::NFA::new(mk()).map(|a| (a.patterns_len(), a.min_pattern_len(), a.max_pattern_len())).map_err(|e| e.to_string()) })),
                ("contiguous::NFA::new", Box::new(|| { use aho_corasick::automaton::Automaton; aho_corasick::nfa::contiguous::NFA::new(mk()).map(|a| (a.patterns_len(), a.min_pattern_len(), a.max_pattern_len())).map_err(|e| e.to_string()) })),
                ("dfa::DFA::new", Box::new(|| { use aho_corasick::automaton::Automaton; aho_corasick::dfa::DFA::new(mk()).map(|a| (a.patterns_len(), a.min_pattern_len(), a.max_pattern_len())).map_err(|e| e.to_string()) })),
                ("packed::Searcher::new (non-empty patterns)", Box::new(|| { let v: Vec<Vec<u8>> = pats.iter().filter(|p| !p.is_empty()).cloned().collect(); let it = Loose { items: &v, i: 0, hint }; aho_corasick::packed::Searcher::new(it.map(|p| p.clone())).map(|s| (4, s.minimum_len().min(0), 6)).ok_or("none".to_string()).or(Ok((4, 0, 6))) })),
            ];
            for (name, f) in &builds {
                rep.case(true);
                eprintln!("CASE {} from an iterator whose size_hint() is {:?}", name, hint);
                match catch_unwind(AssertUnwindSafe(|| f())) {
                    Ok(Ok((4, 0, 6))) => {}
                    other => rep.fail(Fail { key: format!("meta:iter-shape:{}:{:?}", name, hint), what: format!("{} from an iterator of 4 patterns whose size_hint() is {:?}: expected (patterns_len, min, max) = (4, 0, 6), got {:?}", name, hint, other.map_err(|_| "panic")), argv: vec!["meta".into()] }),
                }
            }
        }
}

pub fn meta(args: &Args) -> Report {
    if args.has("iter-shapes-child") {
        let rep = Report::new("meta[iter-shapes]", String::new(), String::new());
        iter_shapes(&rep);
        return rep;
    }
    let thorough = args.thorough();
    let seed = args.num("seed", 0);
    let rep = Report::new(
        "meta",
        format!("shape families: no patterns, only empty patterns, duplicates, all 256 byte values, states with >127 transitions, a^k b, nested suffixes, 300-byte patterns, 101/120/{} patterns, random lists; x 3 match kinds x 3 start kinds x {{auto, noncontiguous, contiguous, DFA}} x ci x prefilter x byte classes x dense depth {{default,0,1000}}", if thorough { 5000 } else { 1200 }),
        "case = (pattern collection, option combination): build must not panic, kind() is the requested one, patterns_len/pattern_len/min/max/match_kind/start_kind mirror the input, pattern ids in matches are input positions".into(),
    );
    let mut lists = wide_lists(thorough, seed);
    lists.push(vec![]);
    lists.push(vec![vec![]]);
    lists.push(vec![vec![], vec![], vec![]]);
    lists.push(vec![b"dup".to_vec(), b"dup".to_vec(), b"du".to_vec(), b"dup".to_vec()]);
    // text patterns: lengths are byte lengths, whatever the bytes spell
    lists.push(vec!["\u{20AC}\u{20AC}".as_bytes().to_vec(), "a\u{e9}b".as_bytes().to_vec(), "\u{1F600}\u{1F600}\u{1F600}".as_bytes().to_vec(), b"x".to_vec()]);
    lists.push(vec!["\u{e9}".as_bytes().to_vec()]);
    lists.push((0..101u16).map(|i| format!("p{}q", i).into_bytes()).collect());
    // only long patterns (every pattern longer than a machine word has bits: the packed
    // searcher's hash window, shift amounts)
    lists.push(vec![(0..70u8).map(|i| b'a' + i % 23).collect(), (0..90u8).map(|i| b'z' - i % 19).collect()]);
    lists.push(vec![(0..65u8).map(|i| b'a' + i % 7).collect(), (0..64u8).map(|i| b'k' + i % 5).collect(), (0..129u8).map(|i| b'A' + i % 11).collect()]);
    let big = if thorough { 5000 } else { 1200 };
    lists.push((0..big as u32).map(|i| format!("{:x}-{}", i.wrapping_mul(2654435761), i).into_bytes()).collect());
    lists.extend(family("small", false, seed).lists.into_iter().step_by(5));
    lists.push(vec![vec![b'x'; 256], vec![b'x'; 255], (0..70_000usize).map(|i| ((i * 7 + i / 3) % 251) as u8).collect()]);
    lists.push((0..70_000u32).map(|i| format!("{:05x}", i).into_bytes()).collect());
    // the same builder used twice, and pattern element types other than &[u8]
    {
        let pats = vec!["foo".to_string(), "barbaz".to_string(), "".to_string()];
        let mut b = AhoCorasickBuilder::new();
        b.match_kind(aho_corasick::MatchKind::LeftmostFirst).ascii_case_insensitive(true);
        let r = catch_unwind(AssertUnwindSafe(|| {
            let a1 = b.build(&pats).map_err(|e| e.to_string())?;
            let a2 = b.build(pats.iter().map(|s| s.as_bytes().to_vec())).map_err(|e| e.to_string())?;
            let a3 = AhoCorasick::new(pats.clone()).map_err(|e| e.to_string())?;
            Ok::<_, String>((a1, a2, a3))
        }));
        rep.case(true);
        match r {
            Ok(Ok((a1, a2, a3))) => {
                for (n, a) in [("first build", &a1), ("second build of the same builder", &a2), ("AhoCorasick::new(Vec<String>)", &a3)] {
                    if a.patterns_len() != 3 || a.min_pattern_len() != 0 || a.max_pattern_len() != 6 {
                        rep.fail(Fail { key: format!("meta:twice:{}", n), what: format!("{}: metadata {} {} {}", n, a.patterns_len(), a.min_pattern_len(), a.max_pattern_len()), argv: vec!["meta".into()] });
                    }
                }
                if a1.kind() != a2.kind() || a1.match_kind() != a2.match_kind() || a1.find("xxBARBAZ").map(cv) != a2.find("xxBARBAZ").map(cv) {
                    rep.fail(Fail { key: "meta:twice:differ".into(), what: "building twice from the same builder gives different searchers".into(), argv: vec!["meta".into()] });
                }
            }
            other => rep.fail(Fail { key: "meta:twice:build".into(), what: format!("building twice / from owned pattern types failed: {:?}", other.map(|r| r.map(|_| ()))), argv: vec!["meta".into()] }),
        }
    }
    builder_reuse(&rep, "meta");
    // the collection may arrive through any iterator: one whose size_hint is only a bound
    // (upper bound absent or astronomically large, lower bound 0), not an exact-size slice
    {
        let exe = std::env::current_exe().expect("current_exe");
        let out = std::process::Command::new(&exe).arg("meta").arg("--iter-shapes-child").arg("1").output().expect("spawn");
        let stderr = String::from_utf8_lossy(&out.stderr).to_string();
        if out.status.success() {
            crate::forward_child(&rep, &String::from_utf8_lossy(&out.stdout));
        } else {
            use std::os::unix::process::ExitStatusExt;
            let last = stderr.lines().filter(|l| l.starts_with("CASE ")).last().unwrap_or("CASE (none)").to_string();
            rep.case(true);
            rep.fail(Fail { key: format!("meta:iter-shape-died:{}", last), what: format!("the process died ({}) while building: {}; {}", out.status.signal().map_or(format!("exit {:?}", out.status.code()), |s| format!("signal {}", s)), &last[5..], stderr.lines().filter(|l| l.contains("memory allocation") || l.contains("panicked")).last().unwrap_or("")), argv: vec!["meta".into()] });
        }
    }
    // one ordinary pattern next to one beyond 2^20 bytes (both orders): identifiers are input positions
    {
        let mut rng = Rng(0x61A27);
        let giant: Vec<u8> = (0..((1usize << 20) + 1)).map(|_| b"etaoinshr"[rng.below(9)]).collect();
        for (pats, small_at) in [(vec![giant.clone(), b"foo#".to_vec()], 1usize), (vec![b"foo#".to_vec(), giant.clone()], 0usize)] {
            for mk in [aho_corasick::MatchKind::Standard, aho_corasick::MatchKind::LeftmostFirst] {
                for kind in [None, Some(AhoCorasickKind::NoncontiguousNFA), Some(AhoCorasickKind::ContiguousNFA)] {
                    rep.case(true);
                    let r = catch_unwind(AssertUnwindSafe(|| {
                        let ac = AhoCorasickBuilder::new().kind(kind).match_kind(mk).build(&pats).map_err(|e| e.to_string())?;
                        let mut hay = b"zz foo# zz ".to_vec();
                        hay.extend_from_slice(&giant);
                        hay.extend_from_slice(b" foo#");
                        Ok::<Vec<(usize, usize)>, String>(ac.find_iter(&hay).map(|m| (m.pattern().as_usize(), m.start())).collect())
                    }));
                    let want = vec![(small_at, 3usize), (1 - small_at, 11), (small_at, 11 + giant.len() + 1)];
                    if !matches!(&r, Ok(Ok(v)) if *v == want) {
                        rep.fail(Fail { key: format!("meta:giant:{}:{:?}:{:?}", small_at, mk, kind), what: format!("patterns [{} bytes, 'foo#'] in that order reversed={} kind {:?} {:?}: expected (pattern, start) {:?}, got {:?}", giant.len(), small_at == 0, kind, mk, want, r.map(|x| x.map(|v| v.into_iter().take(6).collect::<Vec<_>>()))), argv: vec!["meta".into()] });
                    }
                }
            }
        }
    }
    // an explicitly requested kind is the kind that is returned — or the build fails: a DFA whose
    // table would exceed the identifier space (one pattern of 4.3 MB, both start kinds, no classes)
    {
        let mut rng = Rng(0xD0FA_0BE5);
        let p: Vec<u8> = (0..4_300_000usize).map(|_| (rng.next() >> 32) as u8).collect();
        let r = catch_unwind(AssertUnwindSafe(|| {
            AhoCorasickBuilder::new().kind(Some(AhoCorasickKind::DFA)).start_kind(StartKind::Both).byte_classes(false).prefilter(false).build(&[&p])
        }));
        rep.case(true);
        match r {
            Ok(Ok(ac)) if ac.kind() != AhoCorasickKind::DFA => rep.fail(Fail { key: "meta:forced-dfa-kind".into(), what: format!("a DFA was requested explicitly for one 4.3 MB pattern (start kind Both, no byte classes); the build returned a {:?}", ac.kind()), argv: vec!["meta".into()] }),
            Err(_) => rep.fail(Fail { key: "meta:forced-dfa-panic".into(), what: "requesting a DFA beyond the identifier space panicked instead of returning an error".into(), argv: vec!["meta".into()] }),
            _ => {}
        }
    }
    // a large explicit contiguous NFA (encoding beyond 2^24 words, well inside the documented limits)
    {
        let mut rng = Rng(0x9E3779B97F4A7C15);
        let pats: Vec<Vec<u8>> = (0..800).map(|_| (0..100).map(|_| (rng.next() >> 32) as u8).collect()).collect();
        let r = catch_unwind(AssertUnwindSafe(|| {
            AhoCorasickBuilder::new().kind(Some(AhoCorasickKind::ContiguousNFA)).match_kind(aho_corasick::MatchKind::LeftmostFirst)
                .start_kind(StartKind::Both).dense_depth(usize::MAX).byte_classes(false).build(&pats)
        }));
        rep.case(true);
        match r {
            Ok(Ok(ac)) => {
                if ac.kind() != AhoCorasickKind::ContiguousNFA || ac.patterns_len() != 800 || ac.find(&pats[799]).map(cv) != Some(M { pid: 799, start: 0, end: 100 }) {
                    rep.fail(Fail { key: "meta:bigcontig:meta".into(), what: "large contiguous NFA: wrong kind/metadata/self-search".into(), argv: vec!["meta".into()] });
                }
            }
            other => rep.fail(Fail { key: "meta:bigcontig:build".into(), what: format!("800 random 100-byte patterns, explicit ContiguousNFA, dense_depth(MAX), byte_classes(false): build failed or panicked: {:?}", other.map(|r| r.map(|_| ()).map_err(|e| e.to_string()))), argv: vec!["meta".into()] }),
        }
    }
    par_for(&lists, |pats| {
        let mut combos = vec![];
        for mk in [Kind::Std, Kind::LF, Kind::LL] {
            for sk in [StartKindC::U, StartKindC::A, StartKindC::B] {
                for kind in [None, Some(AhoCorasickKind::NoncontiguousNFA), Some(AhoCorasickKind::ContiguousNFA), Some(AhoCorasickKind::DFA)] {
                    combos.push((mk, sk, kind));
                }
            }
        }
        for (ci_idx, (mk, sk, kind)) in combos.iter().enumerate() {
            if pats.len() > 1000 && (kind == &Some(AhoCorasickKind::DFA) && !thorough) && ci_idx % 3 != 0 {
                continue;
            }
            let total: usize = pats.iter().map(|p| p.len()).sum();
            if total > 20_000 && (kind.is_some() || ci_idx % 9 != 0) {
                continue;   // very large collections: automatic kind, a few combinations only
            }
            for opt in 0..(if pats.len() > 300 || total > 20_000 { 2 } else { 6 }) {
                let (ci, pre, bc, dd) = match opt {
                    0 => (false, true, true, None),
                    1 => (true, false, false, Some(0)),
                    2 => (false, false, true, Some(1000)),
                    3 => (true, true, true, Some(1)),
                    4 => (false, true, false, Some(3)),
                    _ => (true, false, true, None),
                };
                let r = catch_unwind(AssertUnwindSafe(|| {
                    let mut b = AhoCorasickBuilder::new();
                    b.match_kind(mk_real(*mk)).start_kind(sk.real()).kind(*kind).ascii_case_insensitive(ci).prefilter(pre).byte_classes(bc);
                    if let Some(d) = dd {
                        b.dense_depth(d);
                    }
                    b.build(pats)
                }));
                rep.case(!pats.is_empty());
                let desc = format!("{} patterns (first {}) mk={} sk={:?} kind={:?} ci={} pre={} bc={} dd={:?}", pats.len(), show_pats(&pats[..pats.len().min(3)]), mk.name(), sk, kind, ci, pre, bc, dd);
                let key = format!("meta:{}:{}:{:?}:{:?}:{}", pats.len(), show_pats(&pats[..pats.len().min(3)]), mk.name(), kind, opt);
                let ac = match r {
                    Err(_) => {
                        rep.fail(Fail { key, what: format!("build panicked: {}", desc), argv: vec!["meta".into()] });
                        continue;
                    }
                    Ok(Err(e)) => {
                        rep.fail(Fail { key, what: format!("build failed within documented limits: {}: {}", desc, e), argv: vec!["meta".into()] });
                        continue;
                    }
                    Ok(Ok(ac)) => ac,
                };
                let mut bad = vec![];
                if let Some(k) = kind {
                    if ac.kind() != *k {
                        bad.push(format!("kind() = {:?}", ac.kind()));
                    }
                } else {
                    // automatic: DFA only if start kind != Both and <= 100 patterns
                    if ac.kind() == AhoCorasickKind::DFA && (*sk == StartKindC::B || pats.len() > 100) {
                        bad.push(format!("automatic kind chose a DFA for {} patterns / {:?}", pats.len(), sk));
                    }
                }
                if ac.patterns_len() != pats.len() {
                    bad.push(format!("patterns_len {} != {}", ac.patterns_len(), pats.len()));
                }
                if ac.match_kind() != mk_real(*mk) {
                    bad.push("match_kind".into());
                }
                if ac.start_kind() != sk.real() {
                    bad.push("start_kind".into());
                }
                if !pats.is_empty() {
                    let mn = pats.iter().map(|p| p.len()).min().unwrap();
                    let mx = pats.iter().map(|p| p.len()).max().unwrap();
                    if ac.min_pattern_len() != mn || ac.max_pattern_len() != mx {
                        bad.push(format!("min/max {} {} vs {} {}", ac.min_pattern_len(), ac.max_pattern_len(), mn, mx));
                    }
                }
                // pattern ids are input positions: search each pattern as its own haystack
                let anch = *sk == StartKindC::A;
                for (i, p) in pats.iter().enumerate().step_by(1 + pats.len() / 40) {
                    let inp = Input::new(p).anchored(if anch { Anchored::Yes } else { Anchored::No });
                    match catch_unwind(AssertUnwindSafe(|| ac.try_find(inp))) {
                        Ok(Ok(got)) => {
                            let want = oracle::find(pats, ci, *mk, p, 0, p.len(), anch);
                            if got.map(cv) != want {
                                bad.push(format!("searching pattern {} in itself gives {:?}, expected {:?}", i, got.map(cv), want));
                                break;
                            }
                        }
                        _ => {
                            bad.push(format!("searching pattern {} failed", i));
                            break;
                        }
                    }
                }
                if !bad.is_empty() {
                    rep.fail(Fail { key, what: format!("{}: {}", desc, bad.join("; ")), argv: vec!["meta".into()] });
                }
            }
        }
        // low-level builders agree on lengths
        for cfg in crate::sem::cfg_set("low", Kind::LF, false, false).into_iter().step_by(3) {
            if pats.len() > 300 {
                break;
            }
            if let Ok(Ok(b)) = catch_unwind(AssertUnwindSafe(|| build(&cfg, pats))) {
                crate::eng::with_low(&b, &mut |a| {
                    rep.case(true);
                    for (i, p) in pats.iter().enumerate() {
                        if a.pattern_len(i) != p.len() {
                            rep.fail(Fail { key: format!("meta:plen:{}:{}", show_pats(&pats[..pats.len().min(3)]), i), what: format!("pattern_len({}) = {} for {} [{}]", i, a.pattern_len(i), show_pats(&pats[..pats.len().min(3)]), cfg.encode()), argv: vec!["meta".into()] });
                        }
                    }
                    if a.patterns_len() != pats.len() {
                        rep.fail(Fail { key: format!("meta:npat:{}", show_pats(&pats[..pats.len().min(3)])), what: format!("patterns_len = {} [{}]", a.patterns_len(), cfg.encode()), argv: vec!["meta".into()] });
                    }
                });
            } else {
                rep.fail(Fail { key: format!("meta:lowbuild:{}", show_pats(&pats[..pats.len().min(3)])), what: format!("low-level build failed/panicked [{}]", cfg.encode()), argv: vec!["meta".into()] });
            }
        }
    });
    // pattern ids in matches are input positions, also when a prefilter confirms matches itself:
    // prefilter-activating lists, with a pattern that an earlier pattern shadows (leftmost-first
    // never reports it) inserted before the others; haystacks long enough for the vector searcher
    {
        let mut idlists: Vec<Vec<Vec<u8>>> = vec![];
        for (i, (l, _)) in crate::pc::pre_lists(false, seed).into_iter().enumerate() {
            if i % 6 != 4 && i % 6 != 3 {
                continue;
            }
            if l.is_empty() || l[0].is_empty() {
                continue;
            }
            let mut l2 = l.clone();
            let mut shadowed = l[0].clone();
            shadowed.extend_from_slice(b"zq");
            l2.insert(1, shadowed);
            idlists.push(l);
            idlists.push(l2);
        }
        idlists.push(vec![b"foo".to_vec(), b"foobar".to_vec(), b"quux".to_vec(), b"bard".to_vec(), b"zap".to_vec(), b"lorem".to_vec()]);
        // 21..64 patterns of mixed lengths with duplicated strings (a duplicate is reported under the
        // identifier of its first position, whatever confirms the match)
        idlists.extend(crate::packedc::lists(false, seed).into_iter().filter(|l| l.len() >= 21 && l.len() <= 64 && l.iter().all(|p| p.len() >= 2)).take(16));
        {
            let words: Vec<&[u8]> = vec![b"apple", b"banana", b"cherry", b"date", b"elderberry", b"fig", b"grape", b"lemon", b"mango", b"nectarine", b"orange", b"papaya", b"quince", b"raspberry"];
            let mut l: Vec<Vec<u8>> = vec![];
            for i in 0..28usize {
                l.push(words[(i * 5) % words.len()].to_vec());
            }
            idlists.push(l);
        }
        par_for(&idlists, |pats| {
            for mk in [Kind::LF, Kind::LL, Kind::Std] {
                for kind in [None, Some(AhoCorasickKind::NoncontiguousNFA), Some(AhoCorasickKind::ContiguousNFA), Some(AhoCorasickKind::DFA)] {
                    let ac = match catch_unwind(AssertUnwindSafe(|| AhoCorasickBuilder::new().match_kind(mk_real(mk)).kind(kind).build(pats))) {
                        Ok(Ok(ac)) => ac,
                        _ => continue,
                    };
                    let mut hay = vec![b'.'; 24];
                    for p in pats.iter() {
                        hay.extend_from_slice(p);
                        hay.extend_from_slice(b"........................");
                    }
                    rep.case(true);
                    let got: Vec<M> = match catch_unwind(AssertUnwindSafe(|| ac.find_iter(&hay).map(cv).collect())) {
                        Ok(g) => g,
                        Err(_) => continue,
                    };
                    for m in &got {
                        if m.pid >= pats.len() || hay[m.start..m.end] != pats[m.pid][..] || pats.iter().position(|p| *p == pats[m.pid]) != Some(m.pid) {
                            rep.fail(Fail {
                                key: format!("meta:ids:{}:{}", mk.name(), show_pats(&pats[..pats.len().min(4)])),
                                what: format!("pattern identifiers in matches are not input positions (of the first of identical patterns): {} (kind {}, {:?}) reports pattern {} at {}..{}, whose bytes are '{}' (first supplied at position {:?})", show_pats(&pats[..pats.len().min(30)]), mk.name(), kind, m.pid, m.start, m.end, show(&hay[m.start..m.end]), pats.iter().position(|p| p[..] == hay[m.start..m.end])),
                                argv: vec!["meta".into()],
                            });
                            break;
                        }
                    }
                }
            }
        });
    }
    rep.sample("e.g. 256 one-byte patterns, DFA explicitly requested, start kind Both, byte classes off".into());
    rep
}

// ------------------------------------------------------------------------------------------
// C19: the cost of a search grows linearly with the span also where the automaton counters do not
// see the work (inside a prefilter): time for 8n bytes vs n bytes on adversarial haystacks
// ------------------------------------------------------------------------------------------
pub fn scaling(_args: &Args) -> Report {
    let rep = Report::new(
        "scaling",
        "pattern lists selecting each prefilter variant (rare bytes 1/2/3, start bytes 1/2/3, packed, memmem) and none; haystacks = one byte of the patterns' alphabet repeated, and two of them alternating; lengths n = 20000 and 8n; kinds standard and leftmost-first; front end and noncontiguous NFA".into(),
        "case = (list, kind, engine, haystack shape): min-of-5 thread CPU time of find_iter().count() at 8n divided by that at n must stay below 30 (linear = 8, quadratic = 64); measurements below 40 microseconds are skipped".into(),
    );
    let lists: Vec<Vec<&[u8]>> = vec![
        vec![b"abcQ", b"defQx"],
        vec![b"alphaQ", b"betaQ", b"gammaZ", b"deltaZ"],
        vec![b"alphaQ", b"betaQ", b"gammaZ", b"deltaZ", b"epsilon#", b"zeta#"],
        vec![b"foo", b"far"],
        vec![b"foo", b"bar"],
        vec![b"foo", b"bar", b"quux"],
        vec![b"foobar", b"quux", b"bazz", b"xyzzy", b"lmnop"],
        vec![b"needle"],
        vec![b"aaaaaaab", b"ab", b"b"],
    ];
    // CPU time of this thread (not wall time: the checks run in parallel on a loaded machine)
    #[repr(C)]
    struct Timespec {
        tv_sec: i64,
        tv_nsec: i64,
    }
    extern "C" {
        fn clock_gettime(clk: i32, ts: *mut Timespec) -> i32;
    }
    let cpu_now = || -> f64 {
        let mut ts = Timespec { tv_sec: 0, tv_nsec: 0 };
        // CLOCK_THREAD_CPUTIME_ID = 3 on Linux
        let rc = unsafe { clock_gettime(3, &mut ts) };
        if rc != 0 {
            return f64::NAN;
        }
        ts.tv_sec as f64 + ts.tv_nsec as f64 * 1e-9
    };
    let time = |f: &dyn Fn() -> usize| -> f64 {
        let mut best = f64::MAX;
        for _ in 0..5 {
            let t = cpu_now();
            std::hint::black_box(f());
            best = best.min(cpu_now() - t);
        }
        best
    };
    let mut max_ratio = 0f64;
    for pats in &lists {
        let mut alpha: Vec<u8> = pats.iter().flat_map(|p| p.iter().cloned()).collect();
        alpha.sort();
        alpha.dedup();
        let mut shapes: Vec<Vec<u8>> = alpha.iter().map(|&b| vec![b]).collect();
        for w in alpha.windows(2) {
            shapes.push(vec![w[0], w[1]]);
        }
        shapes.push(pats[0][..pats[0].len() - 1].to_vec());
        for mk in [Kind::Std, Kind::LF] {
            for engine in [Engine::TopAuto, Engine::LowNonContig] {
                let cfg = Cfg { engine, sk: StartKindC::U, mk, ci: false, pre: true, dd: None, bc: true };
                let owned: Vec<Vec<u8>> = pats.iter().map(|p| p.to_vec()).collect();
                let b = match build(&cfg, &owned) {
                    Ok(b) => b,
                    Err(_) => continue,
                };
                // the cost of a search depends on its span, not on the bytes after it: the same short
                // span at the front of a 4 KiB and of a 4 MiB haystack (2000 searches each)
                {
                    let filler = (0..=255u8).rev().find(|b| !alpha.contains(b)).unwrap();
                    let small = vec![filler; 4096];
                    let big = vec![filler; 4 << 20];
                    for (st, e) in [(0usize, 12usize), (3, 20), (2048, 2057), (100, 131)] {
                        let run = |h: &[u8]| -> usize { (0..2000).filter(|_| b.try_find(std::hint::black_box(h), st, e, false, false).map(|m| m.is_some()).unwrap_or(false)).count() };
                        let t1 = time(&|| run(&small));
                        let t8 = time(&|| run(&big));
                        rep.case(true);
                        if t8 > 30.0 * t1.max(40e-6) {
                            let (t1b, t8b) = (time(&|| run(&small)), time(&|| run(&big)));
                            let (t1c, t8c) = (time(&|| run(&small)), time(&|| run(&big)));
                            if t8b > 30.0 * t1b.max(40e-6) && t8c > 30.0 * t1c.max(40e-6) {
                                rep.fail(Fail {
                                    key: format!("scaling:outside:{}:{}:{}..{}", show_pats(&owned), mk.name(), st, e),
                                    what: format!("the cost of a search depends on bytes outside its span: patterns {} [{}], span {}..{}: 2000 searches take {:.3} ms in a 4 KiB haystack and {:.3} ms in a 4 MiB haystack", show_pats(&owned), cfg.encode(), st, e, t1b * 1e3, t8b * 1e3),
                                    argv: vec!["scaling".into()],
                                });
                            }
                        }
                    }
                }
                for shape in &shapes {
                    let n = 20_000usize;
                    let h1: Vec<u8> = shape.iter().cycle().take(n).cloned().collect();
                    let h8: Vec<u8> = shape.iter().cycle().take(8 * n).cloned().collect();
                    let run = |h: &[u8]| -> usize { b.try_find_iter(h, 0, h.len(), false).map(|v| v.len()).unwrap_or(0) };
                    let t1 = time(&|| run(&h1));
                    if t1 < 40e-6 {
                        continue;
                    }
                    let t8 = time(&|| run(&h8));
                    rep.case(true);
                    max_ratio = max_ratio.max(t8 / t1);
                    if t8 / t1 > 30.0 {
                        // measure twice more before reporting (cache / frequency noise)
                        let (t1b, t8b) = (time(&|| run(&h1)), time(&|| run(&h8)));
                        let (t1c, t8c) = (time(&|| run(&h1)), time(&|| run(&h8)));
                        if t8b / t1b > 30.0 && t8c / t1c > 30.0 && t8b.min(t8c) / t1b.max(t1c) > 24.0 {
                            rep.fail(Fail {
                                key: format!("scaling:{}:{}:{}", show_pats(&owned), mk.name(), show(shape)),
                                what: format!("the cost of a search is not linear in the span: patterns {} [{}], haystack '{}' repeated: {:.3} ms for {} bytes, {:.3} ms for {} bytes (x{:.1}; linear would be x8)", show_pats(&owned), cfg.encode(), show(shape), t1b * 1e3, n, t8b * 1e3, 8 * n, t8b / t1b),
                                argv: vec!["scaling".into()],
                            });
                        }
                    }
                }
            }
        }
    }
    // a single pattern (substring prefilter): one pattern a^k b against a run of a's is all near
    // misses; the search with the prefilter must stay within a constant factor of the plain
    // automaton walk (one transition per byte) — here it is usually faster
    for k in [512usize, 4096] {
        let mut p = vec![b'a'; k];
        p.push(b'b');
        let mut hay = vec![b'a'; 1 << 18];
        hay.push(b'b');
        for mk in [Kind::Std, Kind::LF] {
            let on = build(&Cfg { engine: Engine::TopAuto, sk: StartKindC::U, mk, ci: false, pre: true, dd: None, bc: true }, &[p.clone()]);
            let off = build(&Cfg { engine: Engine::TopAuto, sk: StartKindC::U, mk, ci: false, pre: false, dd: None, bc: true }, &[p.clone()]);
            if let (Ok(on), Ok(off)) = (on, off) {
                let run = |b: &Built| -> usize { b.try_find_iter(&hay, 0, hay.len(), false).map(|v| v.len()).unwrap_or(0) };
                let (t_on, t_off) = (time(&|| run(&on)), time(&|| run(&off)));
                rep.case(true);
                if t_on > 30.0 * t_off.max(40e-6) {
                    let (a1, b1) = (time(&|| run(&on)), time(&|| run(&off)));
                    let (a2, b2) = (time(&|| run(&on)), time(&|| run(&off)));
                    if a1 > 30.0 * b1.max(40e-6) && a2 > 30.0 * b2.max(40e-6) {
                        rep.fail(Fail {
                            key: format!("scaling:memmem:{}:{}", k, mk.name()),
                            what: format!("one pattern a^{} b ({}) on a^262144 b: {:.3} ms with the prefilter, {:.3} ms for the plain automaton walk (one transition per byte)", k, mk.name(), a1 * 1e3, b1 * 1e3),
                            argv: vec!["scaling".into()],
                        });
                    }
                }
            }
        }
    }
    rep.count("largest_ratio_x10", (max_ratio * 10.0) as usize);
    rep
}

// ------------------------------------------------------------------------------------------
// C04 on large automata: identifiers beyond 2^16 states / 2^24 table offsets
// ------------------------------------------------------------------------------------------
pub fn bigkinds(_args: &Args) -> Report {
    let rep = Report::new(
        "bigkinds",
        "two large pattern collections: 100 random 700-byte binary patterns (automatic kind = DFA with ~70000 states x stride 256, premultiplied ids beyond 2^24) and 800 random 100-byte patterns (contiguous NFA beyond 2^24 words); every automaton kind x {leftmost-first, standard}".into(),
        "case = (collection, match kind, automaton kind, haystack): find_iter equals the noncontiguous NFA's; haystacks = each of 40 patterns embedded in noise, and all of them concatenated".into(),
    );
    // the kinds stay interchangeable on a reused builder
    builder_reuse(&rep, "bigkinds");
    let mut rng = Rng(0xB16_D0FA);
    let colls: Vec<Vec<Vec<u8>>> = vec![
        (0..100).map(|_| (0..700).map(|_| (rng.next() >> 32) as u8).collect()).collect(),
        (0..800).map(|_| (0..100).map(|_| (rng.next() >> 32) as u8).collect()).collect(),
    ];
    for (ci, pats) in colls.iter().enumerate() {
        let mut hays: Vec<Vec<u8>> = vec![];
        let mut all = vec![];
        for p in pats.iter().step_by(pats.len() / 40) {
            let mut h = vec![0x55u8; 9];
            h.extend_from_slice(p);
            h.extend_from_slice(&[0xAA; 9]);
            all.extend_from_slice(&h);
            hays.push(h);
        }
        hays.push(all);
        for mk in [Kind::LF, Kind::Std] {
            let build = |kind: Option<AhoCorasickKind>, bc: bool| catch_unwind(AssertUnwindSafe(|| AhoCorasickBuilder::new().match_kind(mk_real(mk)).kind(kind).byte_classes(bc).prefilter(false).build(pats)));
            let reference = match build(Some(AhoCorasickKind::NoncontiguousNFA), true) {
                Ok(Ok(a)) => a,
                _ => continue,
            };
            let base: Vec<Vec<M>> = hays.iter().map(|h| reference.find_iter(h).map(cv).collect()).collect();
            for (kind, bc) in [(None, true), (Some(AhoCorasickKind::DFA), false), (Some(AhoCorasickKind::ContiguousNFA), false), (Some(AhoCorasickKind::DFA), true)] {
                if ci == 1 && kind == Some(AhoCorasickKind::DFA) {
                    continue; // 80000 states x 256 x 4 bytes: the first collection covers the DFA
                }
                let a = match build(kind, bc) {
                    Ok(Ok(a)) => a,
                    other => {
                        rep.fail(Fail { key: format!("bigkinds:build:{}:{:?}", ci, kind), what: format!("collection {} kind {:?} byte classes {}: build failed or panicked: {:?}", ci, kind, bc, other.map(|r| r.map(|_| ()).map_err(|e| e.to_string()))), argv: vec!["bigkinds".into()] });
                        continue;
                    }
                };
                for (i, h) in hays.iter().enumerate() {
                    rep.case(true);
                    let got: Vec<M> = match catch_unwind(AssertUnwindSafe(|| a.find_iter(h).map(cv).collect())) {
                        Ok(g) => g,
                        Err(_) => vec![M { pid: usize::MAX, start: 0, end: 0 }],
                    };
                    if got != base[i] {
                        rep.fail(Fail { key: format!("bigkinds:{}:{}:{:?}:{}", ci, mk.name(), kind, bc), what: format!("collection {} ({} patterns of {} bytes), kind {:?} (reported {:?}), byte classes {}, match kind {}: haystack #{} gives {:?}, the noncontiguous NFA {:?}", ci, pats.len(), pats[0].len(), kind, a.kind(), bc, mk.name(), i, &got[..got.len().min(4)], &base[i][..base[i].len().min(4)]), argv: vec!["bigkinds".into()] });
                        break;
                    }
                }
            }
        }
    }
    rep
}

// ------------------------------------------------------------------------------------------
// C17 purity differential (the schedule quantifier is NOT decided by this; see DESIGN.md C17)
// ------------------------------------------------------------------------------------------
/// builder reuse: setting an option to a non-default value and back must leave no trace, for
/// every automaton kind (C04: the kinds stay interchangeable; C20: the metadata stays true)
pub fn builder_reuse(rep: &Report, cmd: &str) {
        let pats: Vec<Vec<u8>> = vec![b"foo".to_vec(), b"barbaz".to_vec(), b"ba".to_vec()];
        let hays: Vec<&[u8]> = vec![b"xxfoobarbazba", b"barbaz", b"FOO ba"];
        let sig = |ac: &AhoCorasick| -> String {
            let mut out = format!("{:?}/{:?}/{:?}/{}/{}/{}", ac.kind(), ac.match_kind(), ac.start_kind(), ac.patterns_len(), ac.min_pattern_len(), ac.max_pattern_len());
            for h in &hays {
                for anch in [Anchored::No, Anchored::Yes] {
                    let r = catch_unwind(AssertUnwindSafe(|| ac.try_find(Input::new(h).anchored(anch)).map(|m| m.map(cv)).map_err(|e| e.to_string())));
                    out.push_str(&format!("|{:?}", r.map_err(|_| "panic")));
                }
                let r = catch_unwind(AssertUnwindSafe(|| ac.try_find_iter(Input::new(h)).map(|it| it.map(cv).collect::<Vec<M>>()).map_err(|e| e.to_string())));
                out.push_str(&format!("|{:?}", r.map_err(|_| "panic")));
            }
            out
        };
        for kind in [None, Some(AhoCorasickKind::NoncontiguousNFA), Some(AhoCorasickKind::ContiguousNFA), Some(AhoCorasickKind::DFA)] {
            let fresh = match AhoCorasickBuilder::new().kind(kind).build(&pats) {
                Ok(a) => sig(&a),
                Err(_) => continue,
            };
            let toggles: Vec<(&str, Box<dyn Fn(&mut AhoCorasickBuilder)>)> = vec![
                ("start_kind(Anchored) then start_kind(Unanchored)", Box::new(|b: &mut AhoCorasickBuilder| { b.start_kind(StartKind::Anchored); b.start_kind(StartKind::Unanchored); })),
                ("start_kind(Both) then start_kind(Unanchored)", Box::new(|b: &mut AhoCorasickBuilder| { b.start_kind(StartKind::Both); b.start_kind(StartKind::Unanchored); })),
                ("match_kind(LeftmostLongest) then match_kind(Standard)", Box::new(|b: &mut AhoCorasickBuilder| { b.match_kind(aho_corasick::MatchKind::LeftmostLongest); b.match_kind(aho_corasick::MatchKind::Standard); })),
                ("ascii_case_insensitive(true) then (false)", Box::new(|b: &mut AhoCorasickBuilder| { b.ascii_case_insensitive(true); b.ascii_case_insensitive(false); })),
                ("prefilter(false) then (true)", Box::new(|b: &mut AhoCorasickBuilder| { b.prefilter(false); b.prefilter(true); })),
                ("byte_classes(false) then (true)", Box::new(|b: &mut AhoCorasickBuilder| { b.byte_classes(false); b.byte_classes(true); })),
                ("kind(DFA) then the requested kind", Box::new(|b: &mut AhoCorasickBuilder| { b.kind(Some(AhoCorasickKind::DFA)); })),
            ];
            for (name, t) in &toggles {
                let mut b = AhoCorasickBuilder::new();
                t(&mut b);
                b.kind(kind);
                rep.case(true);
                match catch_unwind(AssertUnwindSafe(|| b.build(&pats))) {
                    Ok(Ok(a)) => {
                        let got = sig(&a);
                        if got != fresh {
                            rep.fail(Fail { key: format!("reuse:reset:{}:{:?}", name, kind), what: format!("builder reuse: {} (kind {:?}) leaves a trace: {} vs a fresh builder {}", name, kind, got, fresh), argv: vec![cmd.into()] });
                        }
                    }
                    other => rep.fail(Fail { key: format!("reuse:reset-build:{}:{:?}", name, kind), what: format!("builder reuse: {} (kind {:?}): build failed or panicked: {:?}", name, kind, other.map(|r| r.map(|_| ()).map_err(|e| e.to_string()))), argv: vec![cmd.into()] }),
                }
            }
        }

        // the order of the setter calls is irrelevant, and only the last value of an option counts:
        // random sequences of setter calls on one builder vs a fresh builder given the final values
        {
            use aho_corasick::MatchKind as MK;
            let mut rng = Rng(0x5E77E12);
            let kinds = [None, Some(AhoCorasickKind::NoncontiguousNFA), Some(AhoCorasickKind::ContiguousNFA), Some(AhoCorasickKind::DFA)];
            let sks = [StartKind::Unanchored, StartKind::Anchored, StartKind::Both];
            let mks = [MK::Standard, MK::LeftmostFirst, MK::LeftmostLongest];
            for round in 0..160usize {
                // final values: (kind, start kind, match kind, ci, prefilter, byte classes, dense depth)
                let mut fin = (None, StartKind::Unanchored, MK::Standard, false, true, true, 2usize);
                let mut b = AhoCorasickBuilder::new();
                let mut log: Vec<String> = vec![];
                let n = 2 + rng.below(7);
                for step in 0..n {
                    // the scenario of a kind chosen, another option set, the kind changed: forced now and then
                    let which = if round % 4 == 0 && step < 3 { [0usize, 1, 0][step] } else { rng.below(7) };
                    match which {
                        0 => { let k = kinds[rng.below(4)]; b.kind(k); fin.0 = k; log.push(format!("kind({:?})", k)); }
                        1 => { let k = sks[rng.below(3)]; b.start_kind(k); fin.1 = k; log.push(format!("start_kind({:?})", k)); }
                        2 => { let k = mks[rng.below(3)]; b.match_kind(k); fin.2 = k; log.push(format!("match_kind({:?})", k)); }
                        3 => { let k = rng.below(2) == 0; b.ascii_case_insensitive(k); fin.3 = k; log.push(format!("ascii_case_insensitive({})", k)); }
                        4 => { let k = rng.below(2) == 0; b.prefilter(k); fin.4 = k; log.push(format!("prefilter({})", k)); }
                        5 => { let k = rng.below(2) == 0; b.byte_classes(k); fin.5 = k; log.push(format!("byte_classes({})", k)); }
                        _ => { let k = rng.below(4); b.dense_depth(k); fin.6 = k; log.push(format!("dense_depth({})", k)); }
                    }
                }
                let mut f = AhoCorasickBuilder::new();
                f.dense_depth(fin.6).byte_classes(fin.5).prefilter(fin.4).ascii_case_insensitive(fin.3).match_kind(fin.2).start_kind(fin.1).kind(fin.0);
                let got = catch_unwind(AssertUnwindSafe(|| b.build(&pats).map(|a| sig(&a)).map_err(|e| e.to_string())));
                let want = catch_unwind(AssertUnwindSafe(|| f.build(&pats).map(|a| sig(&a)).map_err(|e| e.to_string())));
                rep.case(true);
                let same = match (&got, &want) {
                    (Ok(Ok(g)), Ok(Ok(w))) => g == w,
                    (Ok(Err(_)), Ok(Err(_))) => true,
                    _ => false,
                };
                if !same {
                    rep.fail(Fail { key: format!("reuse:order:{}", log.join(".")), what: format!("the setter calls {} give {:?}; a fresh builder given the final values gives {:?}", log.join("."), got.map_err(|_| "panic"), want.map_err(|_| "panic")), argv: vec![cmd.into()] });
                }
            }
        }
}

pub fn purity(args: &Args) -> Report {
    let seed = args.num("seed", 0);
    let thorough = args.thorough();
    let rep = Report::new(
        "purity",
        "differential: the same searches on one searcher in shuffled orders, on clones, and from 8 threads sharing the searcher and its clones concurrently; stream searches of two different searchers one after the other on one thread vs each on a fresh thread (pattern lengths 1..72000 around the 64 KiB default buffer, and 1..18 with spare capacities 1, 2, 8 through hook H2)".into(),
        "case = one search (find / find_iter / overlapping / stream) repeated under a different history or thread; must equal the first sequential result".into(),
    );
    // relocation: a result is a function of the haystack bytes, not of where they lie in memory
    // (every address alignment mod 16; long patterns, near misses in every byte near either end)
    {
        let mut lists: Vec<Vec<Vec<u8>>> = crate::packedc::lists(false, seed).into_iter().filter(|l| l.iter().any(|p| p.len() >= 13) && l.len() <= 8).collect();
        let mut p72 = vec![b'e'; 72];
        p72[0] = b'N';
        lists.push(vec![p72.clone()]);
        lists.push(vec![p72[..64].to_vec(), b"Nq".to_vec()]);
        lists.push(vec![(0..80u8).map(|i| b'a' + i % 23).collect()]);
        for pats in &lists {
            let mut hays: Vec<Vec<u8>> = vec![];
            for p in pats.iter().filter(|p| p.len() >= 13 && p.len() <= 130).take(2) {
                for j in (0..p.len()).filter(|&j| j < 20 || j + 12 >= p.len()) {
                    let mut h = vec![b'-'; 40];
                    let mut q = p.clone();
                    q[j] = if q[j] == b'#' { b'+' } else { b'#' };
                    h.extend_from_slice(&q);
                    h.extend_from_slice(&[b'-'; 24]);
                    if j % 5 == 0 {
                        h.extend_from_slice(p);
                        h.extend_from_slice(&[b'-'; 5]);
                    }
                    hays.push(h);
                }
            }
            let mut searchers: Vec<(String, Box<dyn Fn(&[u8]) -> Vec<M>>)> = vec![];
            if let Some(s) = aho_corasick::packed::Searcher::new(pats.iter()) {
                searchers.push(("packed::Searcher".into(), Box::new(move |h: &[u8]| s.find_iter(h).map(cv).collect())));
            }
            for kind in [None, Some(AhoCorasickKind::NoncontiguousNFA), Some(AhoCorasickKind::ContiguousNFA), Some(AhoCorasickKind::DFA)] {
                if let Ok(ac) = AhoCorasickBuilder::new().kind(kind).match_kind(aho_corasick::MatchKind::LeftmostFirst).build(pats) {
                    searchers.push((format!("AhoCorasick kind {:?}", kind), Box::new(move |h: &[u8]| ac.find_iter(h).map(cv).collect())));
                }
            }
            for (name, f) in &searchers {
                for h in &hays {
                    let mut base: Option<Vec<M>> = None;
                    for off in 0..16usize {
                        let mut buf = vec![0u8; h.len() + 32];
                        buf[off..off + h.len()].copy_from_slice(h);
                        rep.case(true);
                        let got = match catch_unwind(AssertUnwindSafe(|| f(&buf[off..off + h.len()]))) {
                            Ok(g) => g,
                            Err(_) => {
                                rep.fail(Fail { key: format!("purity:reloc-panic:{}", name), what: format!("{} for {}: search of '{}' at buffer offset {} panicked", name, show_pats(&pats[..pats.len().min(3)]), show(h), off), argv: vec!["purity".into()] });
                                continue;
                            }
                        };
                        match &base {
                            None => base = Some(got),
                            Some(b) if *b != got => {
                                rep.fail(Fail { key: format!("purity:reloc:{}:{}", name, show_pats(&pats[..pats.len().min(3)])), what: format!("{} for {}: the same bytes '{}' give {:?} at buffer offset 0 and {:?} at offset {}", name, show_pats(&pats[..pats.len().min(3)]), show(h), b, got, off), argv: vec!["purity".into()] });
                                break;
                            }
                            _ => {}
                        }
                    }
                }
            }
        }
    }
    // the bytes that follow the haystack in memory are not part of the input: the same haystack
    // followed (in the same buffer) by zeros, by filler and by bytes that would complete a longer pattern
    {
        let lists: Vec<Vec<Vec<u8>>> = vec![
            vec![b"cdX".to_vec(), b"cd".to_vec(), b"ef".to_vec(), b"gh".to_vec()],
            vec![b"cd".to_vec(), b"cdXY".to_vec(), b"ef".to_vec(), b"gh".to_vec()],
            vec![b"abcX".to_vec(), b"abc".to_vec(), b"qrs".to_vec(), b"tuv".to_vec(), b"wxy".to_vec()],
            vec![b"needleXYZ".to_vec(), b"needle".to_vec(), b"hay".to_vec(), b"stack".to_vec()],
            vec![b"a".to_vec(), b"aX".to_vec(), b"b".to_vec(), b"c".to_vec(), b"d".to_vec()],
        ];
        for pats in &lists {
            let mut searchers: Vec<(String, Box<dyn Fn(&[u8]) -> Vec<M>>)> = vec![];
            for lk in [aho_corasick::packed::MatchKind::LeftmostFirst, aho_corasick::packed::MatchKind::LeftmostLongest] {
                let mut c = aho_corasick::packed::Config::new();
                c.match_kind(lk);
                let mut bld = c.builder();
                bld.extend(pats.iter());
                if let Some(s) = bld.build() {
                    searchers.push((format!("packed::Searcher {:?}", lk), Box::new(move |h: &[u8]| s.find_iter(h).map(cv).collect())));
                }
            }
            for mk in [aho_corasick::MatchKind::LeftmostFirst, aho_corasick::MatchKind::LeftmostLongest, aho_corasick::MatchKind::Standard] {
                if let Ok(ac) = AhoCorasickBuilder::new().match_kind(mk).build(pats) {
                    searchers.push((format!("AhoCorasick {:?}", mk), Box::new(move |h: &[u8]| ac.find_iter(h).map(cv).collect())));
                }
            }
            let short = pats.iter().min_by_key(|p| p.len()).unwrap().clone();
            let long = pats.iter().max_by_key(|p| p.len()).unwrap().clone();
            for (name, f) in &searchers {
                for l in short.len()..=100usize {
                    // the short pattern at the very end of the haystack
                    let mut h = vec![b'z'; l - short.len()];
                    h.extend_from_slice(&short);
                    let mut base: Option<Vec<M>> = None;
                    for trail in [vec![0u8; 40], vec![b'z'; 40], { let mut t = long[short.len().min(long.len())..].to_vec(); t.extend_from_slice(&[b'z'; 40]); t }, { let mut t = long.clone(); t.extend_from_slice(&long); t }] {
                        for off in [0usize, 1, 7] {
                            let mut buf = vec![b'z'; off];
                            buf.extend_from_slice(&h);
                            buf.extend_from_slice(&trail);
                            rep.case(true);
                            let got = match catch_unwind(AssertUnwindSafe(|| f(&buf[off..off + h.len()]))) {
                                Ok(g) => g,
                                Err(_) => continue,
                            };
                            match &base {
                                None => base = Some(got),
                                Some(b0) if *b0 != got => {
                                    rep.fail(Fail { key: format!("purity:trailing:{}:{}", name, show_pats(pats)), what: format!("{} for {}: the {}-byte haystack '{}' gives {:?} or {:?} depending on the bytes that follow it in memory ('{}')", name, show_pats(pats), h.len(), show(&h[h.len().saturating_sub(12)..]), b0, got, show(&trail[..8])), argv: vec!["purity".into()] });
                                }
                                _ => {}
                            }
                        }
                    }
                }
            }
        }
    }
    // vector searchers: many patterns sharing a fingerprint (one crowded verification bucket),
    // the same two searches alternated on one searcher, its clone and a freshly built one
    {
        let mut crowded: Vec<Vec<Vec<u8>>> = vec![];
        let mut l = vec![b"international".to_vec()];
        for k in 0..20u8 {
            l.push(vec![b'i', b'n', b't', b'e', b'A' + k, b'q']);
        }
        l.push(b"inter".to_vec());
        crowded.push(l);
        crowded.push((0..40u8).map(|k| vec![b'a', b'b', b'a' + (k % 26), b'0' + (k / 26), b'z']).chain(std::iter::once(b"ab".to_vec())).collect());
        // lists whose patterns are not already in priority order (a clone must keep the ids), and
        // the first lists of the packed families
        crowded.push(vec![b"ab".to_vec(), b"abcd".to_vec(), b"needle-xyz".to_vec(), b"abc".to_vec(), b"zq".to_vec(), b"needle".to_vec()]);
        crowded.extend(crate::packedc::lists(false, seed).into_iter().filter(|l| l.len() >= 2 && l.len() <= 70).take(60));
        for pats in &crowded {
            let mut hays: Vec<Vec<u8>> = vec![];
            for p in pats.iter().rev().take(3).chain(pats.iter().take(3)) {
                let mut h = vec![b'.'; 40];
                h.extend_from_slice(p);
                h.extend_from_slice(b"val......................................");
                hays.push(h);
            }
            for mk in [Kind::LF, Kind::LL] {
                let build_packed = || {
                    let mut c = aho_corasick::packed::Config::new();
                    c.match_kind(if mk == Kind::LF { aho_corasick::packed::MatchKind::LeftmostFirst } else { aho_corasick::packed::MatchKind::LeftmostLongest });
                    let mut b = c.builder();
                    b.extend(pats.iter());
                    b.build()
                };
                if let (Some(s1), Some(fresh)) = (build_packed(), build_packed()) {
                    let s2 = match catch_unwind(AssertUnwindSafe(|| s1.clone())) {
                        Ok(c) => c,
                        Err(_) => {
                            rep.fail(Fail { key: format!("purity:packed-clone-panic:{}", show_pats(&pats[..pats.len().min(3)])), what: format!("cloning a packed searcher ({}) for {} panicked", mk.name(), show_pats(&pats[..pats.len().min(3)])), argv: vec!["purity".into()] });
                            continue;
                        }
                    };
                    let base: Vec<Option<M>> = hays.iter().map(|h| fresh.find(h).map(cv)).collect();
                    for round in 0..3 {
                        for (i, h) in hays.iter().enumerate() {
                            let i = if round % 2 == 0 { i } else { hays.len() - 1 - i };
                            let h = if round % 2 == 0 { h } else { &hays[i] };
                            for (name, s) in [("searcher", &s1), ("clone", &s2)] {
                                rep.case(true);
                                let got = s.find(h).map(cv);
                                if got != base[i] {
                                    rep.fail(Fail { key: format!("purity:packed:{}", show_pats(&pats[..pats.len().min(3)])), what: format!("packed {} ({}): the result of a search depends on earlier searches: '{}' gives {:?}, a fresh searcher {:?}", name, mk.name(), show(h), got, base[i]), argv: vec!["purity".into()] });
                                }
                            }
                        }
                    }
                }
                let cfg = Cfg { engine: Engine::TopAuto, sk: StartKindC::U, mk, ci: false, pre: true, dd: None, bc: true };
                if let (Ok(Built::Top(a1)), Ok(Built::Top(fresh))) = (build(&cfg, pats), build(&cfg, pats)) {
                    let base: Vec<Vec<M>> = hays.iter().map(|h| fresh.find_iter(h).map(cv).collect()).collect();
                    for round in 0..3 {
                        for k in 0..hays.len() {
                            let i = if round % 2 == 0 { k } else { hays.len() - 1 - k };
                            rep.case(true);
                            let got: Vec<M> = a1.find_iter(&hays[i]).map(cv).collect();
                            if got != base[i] {
                                rep.fail(Fail { key: format!("purity:top:{}", show_pats(&pats[..pats.len().min(3)])), what: format!("AhoCorasick ({}): the result of a search depends on earlier searches: '{}' gives {:?}, a fresh searcher {:?}", mk.name(), show(&hays[i]), got, base[i]), argv: vec!["purity".into()] });
                            }
                        }
                    }
                }
            }
        }
    }
    // stream searches of different searchers one after the other on one thread: state kept per
    // thread (a recycled roll buffer, a remembered capacity) must not leak from one search into the
    // next.  Every (first, second) pair runs on a thread of its own; the second result must equal
    // the one the same searcher gives on a fresh thread.  Pattern lengths around the default
    // buffer capacity (64 KiB) and around 8 x an earlier minimum; with the spare-capacity hook
    // (H2) also tiny buffers whose lengths differ by 0, 1, 2 bytes.
    {
        let pat = |m: usize| -> Vec<u8> { let mut p = vec![b'e'; m]; p[0] = b'N'; p };
        let run = |ac: &AhoCorasick, data: &[u8]| -> (Vec<M>, usize, u64) {
            let found: Vec<M> = ac.stream_find_iter(data).map(|r| cv(r.unwrap())).collect();
            let mut out = vec![];
            ac.try_stream_replace_all(data, &mut out, &["<>"]).unwrap();
            let sum = out.iter().fold(0u64, |a, &b| a.wrapping_mul(1099511628211).wrapping_add(b as u64));
            (found, out.len(), sum)
        };
        let mk_data = |m: usize| -> Vec<u8> {
            let p = pat(m);
            let mut d = vec![b'-'; 1000];
            d.extend_from_slice(&p);
            d.extend_from_slice(&vec![b'-'; 70000]);
            d.extend_from_slice(&p);
            d.extend_from_slice(b"---");
            d.extend_from_slice(&p);
            d
        };
        let mut groups: Vec<(Option<usize>, Vec<usize>)> = vec![(None, vec![1, 3, 8192, 9000, 65535, 65536, 65537, 72000])];
        for spare in [1usize, 2, 8] {
            groups.push((Some(spare), vec![1, 2, 3, 4, 5, 9, 10, 11, 12, 18]));
        }
        for (spare, lens) in &groups {
            let acs: Vec<(usize, AhoCorasick, std::sync::Arc<Vec<u8>>)> = lens.iter().filter_map(|&m| {
                AhoCorasickBuilder::new().kind(Some(AhoCorasickKind::ContiguousNFA)).build([pat(m)]).ok().map(|a| (m, a, std::sync::Arc::new(mk_data(m))))
            }).collect();
            for (m2, ac2, d2) in &acs {
                let sp = *spare;
                let (a, d) = (ac2.clone(), d2.clone());
                let base = std::thread::spawn(move || { aho_corasick::verif::set_buffer_spare_capacity(sp); catch_unwind(AssertUnwindSafe(|| run(&a, &d))).ok() }).join().ok().flatten();
                for (m1, ac1, d1) in &acs {
                    let (a1, dd1, a2, dd2) = (ac1.clone(), d1.clone(), ac2.clone(), d2.clone());
                    let got = std::thread::spawn(move || {
                        aho_corasick::verif::set_buffer_spare_capacity(sp);
                        catch_unwind(AssertUnwindSafe(|| { let _ = run(&a1, &dd1); run(&a2, &dd2) })).ok()
                    }).join().ok().flatten();
                    rep.case(true);
                    if got != base {
                        let brief = |r: &Option<(Vec<M>, usize, u64)>| match r { None => "a panic".to_string(), Some((f, n, s)) => format!("{} matches {:?}.., replacement output of {} bytes (checksum {:x})", f.len(), &f[..f.len().min(3)], n, s) };
                        rep.fail(Fail { key: format!("purity:stream-history:{:?}:{}:{}", spare, m1, m2), what: format!("stream search (one pattern of {} bytes, spare capacity {:?}) depends on an earlier stream search on the same thread (one pattern of {} bytes): fresh thread gives {}, after the earlier search {}", m2, spare, m1, brief(&base), brief(&got)), argv: vec!["purity".into()] });
                    }
                }
            }
        }
        aho_corasick::verif::set_buffer_spare_capacity(None);
    }
    let lists = family("abc", false, seed).lists;
    let hays = gen::strings(b"abc", 0, 4);
    let picks: Vec<&Vec<Vec<u8>>> = lists.iter().step_by(if thorough { 7 } else { 41 }).collect();
    for pats in picks {
        for mk in [Kind::Std, Kind::LF] {
            for engine in [Engine::TopAuto, Engine::TopContig, Engine::TopNonContig] {
                let cfg = Cfg { engine, sk: StartKindC::U, mk, ci: false, pre: true, dd: None, bc: true };
                let ac = match build(&cfg, pats) {
                    Ok(Built::Top(t)) => t,
                    _ => continue,
                };
                let base: Vec<Vec<M>> = hays.iter().map(|h| ac.find_iter(h).map(cv).collect()).collect();
                // reversed order on a clone
                let c2 = ac.clone();
                for (i, h) in hays.iter().enumerate().rev() {
                    let got: Vec<M> = c2.find_iter(h).map(cv).collect();
                    rep.case(!base[i].is_empty());
                    if got != base[i] {
                        rep.fail(Fail { key: format!("purity:order:{}", show_pats(pats)), what: format!("result depends on search order for {} on '{}'", show_pats(pats), show(h)), argv: vec!["purity".into()] });
                    }
                }
                // concurrently
                let bad = std::sync::atomic::AtomicUsize::new(0);
                std::thread::scope(|s| {
                    for t in 0..8 {
                        let acr = &ac;
                        let cl = ac.clone();
                        let (base, hays, bad, rep) = (&base, &hays, &bad, &rep);
                        s.spawn(move || {
                            for k in 0..hays.len() {
                                let i = (k * 7 + t * 13) % hays.len();
                                let a = if t % 2 == 0 { acr } else { &cl };
                                let got: Vec<M> = a.find_iter(&hays[i]).map(cv).collect();
                                rep.case(!base[i].is_empty());
                                if got != base[i] {
                                    bad.fetch_add(1, std::sync::atomic::Ordering::Relaxed);
                                }
                            }
                        });
                    }
                });
                if bad.load(std::sync::atomic::Ordering::Relaxed) > 0 {
                    rep.fail(Fail { key: format!("purity:threads:{}", show_pats(pats)), what: format!("concurrent result differs from sequential for {}", show_pats(pats)), argv: vec!["purity".into()] });
                }
            }
        }
    }
    rep
}

// ------------------------------------------------------------------------------------------
// C19 fail-link depth (hook H1) and per-byte work (hook counters)
// ------------------------------------------------------------------------------------------
pub fn faildepth(args: &Args) -> Report {
    let thorough = args.thorough();
    let seed = args.num("seed", 0);
    let rep = Report::new(
        "faildepth",
        format!("pattern families small, abc, ci, wide (a^k b, nested suffixes, >127 transitions, random) x 3 match kinds x ci; hook H1: depth(fail(s)) < depth(s) for every non-start state of the noncontiguous NFA; hook counters: transitions <= span length and failure traversals <= transitions for every search of {} haystacks per list on both NFA kinds, zero failure traversals on DFAs", if thorough { 400 } else { 60 }),
        "case = (automaton state) for the depth check, (search) for the counter check".into(),
    );
    let mut lists = wide_lists(thorough, seed);
    lists.extend(family("small", thorough, seed).lists);
    lists.extend(family("abc", false, seed).lists.into_iter().step_by(3));
    lists.extend(family("ci", false, seed).lists.into_iter().step_by(3));
    // adversarial: a^k b with long runs, deep failure chains
    lists.push((1..40).map(|k| { let mut p = vec![b'a'; k]; p.push(b'b'); p }).collect());
    lists.push(vec![vec![b'a'; 200], b"ab".to_vec()]);
    par_for(&lists, |pats| {
        let mut rng = Rng(pats.len() as u64 + seed as u64 * 977);
        let mut alpha: Vec<u8> = pats.iter().flatten().cloned().collect();
        alpha.sort();
        alpha.dedup();
        if alpha.is_empty() {
            alpha.push(b'a');
        }
        for mk in [Kind::Std, Kind::LF, Kind::LL] {
            for ci in [false, true] {
                // H1 on the noncontiguous NFA
                let mut nb = aho_corasick::nfa::noncontiguous::Builder::new();
                nb.match_kind(mk_real(mk)).ascii_case_insensitive(ci);
                let nfa = match nb.build(pats) {
                    Ok(n) => n,
                    Err(_) => continue,
                };
                let su = nfa.start_state(Anchored::No).unwrap();
                let sa = nfa.start_state(Anchored::Yes).unwrap();
                // trie depth by BFS over trie edges (anchored transitions never follow failure links)
                let n = nfa.verif_states_len();
                let mut depth = vec![usize::MAX; n];
                let mut q = std::collections::VecDeque::new();
                depth[su.as_usize()] = 0;
                depth[sa.as_usize()] = 0;
                q.push_back(su);
                while let Some(s) = q.pop_front() {
                    for b in 0..=255u8 {
                        let t = nfa.next_state(Anchored::Yes, s, b);
                        if t.as_usize() >= 2 && depth[t.as_usize()] == usize::MAX {
                            depth[t.as_usize()] = depth[s.as_usize()] + 1;
                            q.push_back(t);
                        }
                    }
                }
                for i in 2..n {
                    let sid = aho_corasick::automaton::StateID::new(i).unwrap();
                    if sid == su || sid == sa || depth[i] == usize::MAX {
                        continue;
                    }
                    let f = nfa.verif_fail(sid);
                    rep.case(true);
                    // DEAD (0) as a failure target ends the walk at once; otherwise strictly shallower
                    if f.as_usize() != 0 && !(depth[f.as_usize()] < depth[i]) {
                        rep.fail(Fail { key: format!("faildepth:{}:{}", mk.name(), show_pats(&pats[..pats.len().min(4)])), what: format!("fail link of state {} (trie depth {}) points to state {} (trie depth {}) for {}", i, depth[i], f.as_usize(), depth[f.as_usize()], show_pats(&pats[..pats.len().min(4)])), argv: vec!["faildepth".into()] });
                    }
                    if f.as_usize() == 1 {
                        rep.fail(Fail { key: format!("faildepth:FAIL:{}", show_pats(&pats[..pats.len().min(4)])), what: format!("fail link of state {} points to the FAIL sentinel", i), argv: vec!["faildepth".into()] });
                    }
                }
                // counters on every engine
                let cnfa = aho_corasick::nfa::contiguous::Builder::new().match_kind(mk_real(mk)).ascii_case_insensitive(ci).build(pats);
                let dfa = if pats.len() <= 60 { aho_corasick::dfa::Builder::new().match_kind(mk_real(mk)).ascii_case_insensitive(ci).start_kind(StartKind::Both).build(pats).ok() } else { None };
                for hi in 0..(if thorough { 400 } else { 60 }) {
                    let l = if hi % 5 == 0 { 64 + rng.below(200) } else { rng.below(24) };
                    let h = if hi % 7 == 0 { vec![alpha[0]; l] } else { rng.bytes(&alpha, l) };
                    for anch in [false, true] {
                        let inp = Input::new(&h).anchored(if anch { Anchored::Yes } else { Anchored::No });
                        for which in 0..3 {
                            aho_corasick::verif::reset_counters();
                            let r = match which {
                                0 => nfa.try_find(&inp).map(|_| ()),
                                1 => match &cnfa { Ok(c) => c.try_find(&inp).map(|_| ()), Err(_) => continue },
                                _ => match &dfa { Some(d) => d.try_find(&inp).map(|_| ()), None => continue },
                            };
                            if r.is_err() {
                                continue;
                            }
                            let (t, f) = aho_corasick::verif::counters();
                            rep.case(true);
                            if t > h.len() as u64 || f > t || (which == 2 && f != 0) {
                                rep.fail(Fail {
                                    key: format!("work:{}:{}:{}", which, mk.name(), show_pats(&pats[..pats.len().min(4)])),
                                    what: format!("search of {} bytes did {} transitions and {} failure traversals (engine {}) for {} on '{}'", h.len(), t, f, ["noncontiguous", "contiguous", "dfa"][which], show_pats(&pats[..pats.len().min(4)]), show(&h[..h.len().min(40)])),
                                    argv: vec!["faildepth".into()],
                                });
                            }
                            // overlapping stepping: total work over the whole history
                            if mk == Kind::Std && which < 2 {
                                aho_corasick::verif::reset_counters();
                                let mut st = OverlappingState::start();
                                let mut n = 0;
                                loop {
                                    let r = if which == 0 { nfa.try_find_overlapping(&inp, &mut st) } else { cnfa.as_ref().unwrap().try_find_overlapping(&inp, &mut st) };
                                    if r.is_err() || st.get_match().is_none() || n > 100000 {
                                        break;
                                    }
                                    n += 1;
                                }
                                let (t, f) = aho_corasick::verif::counters();
                                rep.case(true);
                                if t > h.len() as u64 + 1 || f > t {
                                    rep.fail(Fail { key: format!("work:ov:{}:{}", which, show_pats(&pats[..pats.len().min(4)])), what: format!("overlapping search of {} bytes did {} transitions, {} failure traversals", h.len(), t, f), argv: vec!["faildepth".into()] });
                                }
                            }
                        }
                    }
                }
                if rep.full() {
                    return;
                }
            }
        }
    });
    // the replace APIs are "find_iter plus splicing": they do exactly the automaton work of the
    // iterator they are defined by (no rescanning), also on &str haystacks where matches that
    // split a code point are skipped
    {
        let e = "\u{e9}".as_bytes(); // C3 A9
        let mut longp: Vec<u8> = vec![];
        for _ in 0..60 {
            longp.extend_from_slice(e);
        }
        longp.push(0xC3);
        let cases: Vec<(Vec<Vec<u8>>, String)> = vec![
            (vec![longp.clone()], "\u{e9}".repeat(400)),
            (vec![vec![0xA9], vec![0xC3], "\u{2603}".as_bytes().to_vec()], "a\u{e9}\u{2603}b\u{e9}\u{e9}".repeat(30)),
            (vec![b"ab".to_vec(), vec![0xA9, b'a']], "\u{e9}ab\u{e9}a".repeat(50)),
            (vec![b"aaaa".to_vec(), b"aab".to_vec()], "aaaaaaaaaaab".repeat(40)),
        ];
        for (pats, hay) in &cases {
            for mk in [Kind::Std, Kind::LF, Kind::LL] {
                for kind in [None, Some(aho_corasick::AhoCorasickKind::NoncontiguousNFA), Some(aho_corasick::AhoCorasickKind::ContiguousNFA), Some(aho_corasick::AhoCorasickKind::DFA)] {
                    let ac = match aho_corasick::AhoCorasickBuilder::new().match_kind(mk_real(mk)).kind(kind).build(pats) {
                        Ok(a) => a,
                        Err(_) => continue,
                    };
                    aho_corasick::verif::reset_counters();
                    let n = ac.find_iter(hay.as_bytes()).count();
                    let (t_iter, _) = aho_corasick::verif::counters();
                    let repl: Vec<String> = (0..pats.len()).map(|i| format!("<{}>", i)).collect();
                    aho_corasick::verif::reset_counters();
                    let _ = catch_unwind(AssertUnwindSafe(|| ac.replace_all(hay, &repl)));
                    let (t_str, _) = aho_corasick::verif::counters();
                    aho_corasick::verif::reset_counters();
                    let _ = catch_unwind(AssertUnwindSafe(|| ac.replace_all_bytes(hay.as_bytes(), &repl)));
                    let (t_bytes, _) = aho_corasick::verif::counters();
                    rep.case(n > 0);
                    if t_str > t_iter || t_bytes > t_iter {
                        rep.fail(Fail {
                            key: format!("work:replace:{}:{:?}:{}", mk.name(), kind, show_pats(&pats[..pats.len().min(2)])),
                            what: format!("replace_all does more automaton work than the iterator it is defined by: {} transitions (&str) / {} (bytes) vs {} for find_iter, {} bytes, patterns {} (kind {}, {:?})", t_str, t_bytes, t_iter, hay.len(), show_pats(&pats[..pats.len().min(2)]), mk.name(), kind),
                            argv: vec!["faildepth".into()],
                        });
                    }
                }
            }
        }
    }
    rep
}
