use crate::{Args, Report};
pub fn run(_args: &Args) -> Report {
    Report::new("todo", "".into(), "".into())
}
