//! B4: packed searchers (C06) on the real SIMD code: every algorithm variant the CPU offers,
//! pattern lists built for fingerprint collisions / shared buckets / 1..4-byte fingerprints,
//! haystack lengths 0..=100 (so every match offset modulo the vector width), every span of the
//! short ones; compared with the leftmost-first / leftmost-longest definition.
use crate::gen::{enc_pats, hex, show, show_pats, Rng};
use crate::oracle::{self, Kind, M};
use crate::{par_for, Args, Fail, Report};
use aho_corasick::packed::{Config, MatchKind, Searcher};
use std::panic::{catch_unwind, AssertUnwindSafe};

#[derive(Clone, Copy, Debug, PartialEq, Eq)]
pub enum Var {
    Default,
    RabinKarp,
    Teddy,
    TeddySlim128,
    TeddySlim256,
    TeddyFat,
}
const VARS: [Var; 6] = [Var::Default, Var::RabinKarp, Var::Teddy, Var::TeddySlim128, Var::TeddySlim256, Var::TeddyFat];

pub fn build(var: Var, kind: Kind, pats: &[Vec<u8>]) -> Option<Searcher> {
    let mut c = Config::new();
    c.match_kind(if kind == Kind::LF { MatchKind::LeftmostFirst } else { MatchKind::LeftmostLongest });
    match var {
        Var::Default => {}
        Var::RabinKarp => {
            c.only_rabin_karp(true);
        }
        Var::Teddy => {
            c.only_teddy(true).heuristic_pattern_limits(false);
        }
        Var::TeddySlim128 => {
            c.only_teddy(true).only_teddy_fat(Some(false)).only_teddy_256bit(Some(false)).heuristic_pattern_limits(false);
        }
        Var::TeddySlim256 => {
            c.only_teddy(true).only_teddy_fat(Some(false)).only_teddy_256bit(Some(true)).heuristic_pattern_limits(false);
        }
        Var::TeddyFat => {
            c.only_teddy(true).only_teddy_fat(Some(true)).only_teddy_256bit(Some(true)).heuristic_pattern_limits(false);
        }
    }
    let mut b = c.builder();
    b.extend(pats.iter());
    b.build()
}

fn cv(m: aho_corasick::Match) -> M {
    M { pid: m.pattern().as_usize(), start: m.start(), end: m.end() }
}

pub fn lists(thorough: bool, seed: usize) -> Vec<Vec<Vec<u8>>> {
    let mut rng = Rng(0xFA7 + seed as u64);
    let mut v: Vec<Vec<Vec<u8>>> = vec![];
    // fingerprint collisions: same low nybbles, different high nybbles (0x61 'a', 0x71 'q', 0x41 'A', 0x51 'Q')
    v.push(vec![b"ab".to_vec(), b"qb".to_vec(), b"Ab".to_vec(), b"aB".to_vec()]);
    v.push(vec![b"abc".to_vec(), b"qrs".to_vec(), b"ab".to_vec(), b"abcd".to_vec(), b"bcd".to_vec()]);
    v.push(vec![b"a".to_vec(), b"q".to_vec(), b"aq".to_vec(), b"qa".to_vec()]);
    // prefixes of each other in both orders (leftmost-first vs longest)
    v.push(vec![b"abcd".to_vec(), b"ab".to_vec(), b"abc".to_vec(), b"a".to_vec()]);
    v.push(vec![b"a".to_vec(), b"ab".to_vec(), b"abc".to_vec(), b"abcd".to_vec()]);
    // > 8 and > 16 patterns (more patterns than buckets)
    v.push((0..20u8).map(|i| vec![b'a' + i, b'a' + (i * 7) % 26, b'x']).collect());
    v.push((0..40u8).map(|i| vec![b'a' + (i % 4), b'a' + i % 26, b'a' + (i / 3) % 26, b'z']).collect());
    v.push((0..70u8).map(|i| vec![0x10 + (i % 16), 0x20 + i, 0xF0 | (i % 5)]).collect());
    // long patterns (verification beyond the fingerprint), 1..4 byte minimum length
    v.push(vec![vec![b'a'; 30], { let mut p = vec![b'a'; 29]; p.push(b'b'); p }]);
    v.push(vec![b"x".to_vec(), b"abcdefghijklmnopqrstuvwxyz".to_vec()]);
    // crowded fingerprint groups: 9 / 17 / 20 / 33 two-byte patterns with the low nybbles of "ab"
    // (one verification bucket), an unrelated pattern, then patterns that overlap the first
    // ones (longer with the same prefix, a duplicate): priority must survive any bucket policy
    {
        let firsts = [0x61u8, 0x41, 0x51, 0x71, 0x31, 0x21];
        let seconds = [0x62u8, 0x42, 0x52, 0x72, 0x32, 0x22];
        let group: Vec<Vec<u8>> = firsts.iter().flat_map(|&a| seconds.iter().map(move |&b| vec![a, b])).collect();
        for n in [9usize, 16, 17, 20, 33] {
            let mut l: Vec<Vec<u8>> = group[..n].to_vec();
            l.push(b"zz".to_vec());
            l.push(b"abcd".to_vec());
            l.push(group[1].clone());
            l.push(vec![0x41, 0x62, b'x']);
            v.push(l);
            // and with 4-byte fingerprints
            let mut l4: Vec<Vec<u8>> = group[..n].iter().map(|p| { let mut q = p.clone(); q.extend_from_slice(b"cd"); q }).collect();
            l4.push(b"zzzz".to_vec());
            l4.push(b"abcdefgh".to_vec());
            l4.push(l4[2].clone());
            v.push(l4);
        }
    }
    // pattern lengths around the word sizes of a confirmation memcmp
    for k in 0..9usize {
        let lens = [13usize, 16, 17, 21, 22, 24, 29, 32, 40];
        v.push((0..5).map(|i| { let mut p = vec![b"QZ#qz"[i]]; p.extend((0..lens[(k + i) % 9] - 1).map(|j| b"aet-"[(j * 7 + i + k) % 4])); p }).collect());
    }
    // long minimum lengths: rolling-hash window wider than the 64-bit hash (>= 65 bytes)
    for minl in [33usize, 63, 64, 65, 66, 100] {
        let base: Vec<u8> = (0..minl + 20).map(|i| b'a' + (i % 26) as u8).collect();
        v.push(vec![base[..minl].to_vec()]);
        v.push(vec![base[..minl + 5].to_vec(), base[3..minl + 3].to_vec(), base[..minl + 20].to_vec()]);
    }
    // one pattern beyond 64 KiB next to short ones (lengths and offsets that do not fit 16 bits)
    {
        let mut r2 = Rng(0x70000);
        let long: Vec<u8> = (0..70_000).map(|_| b"etaoin"[r2.below(6)]).collect();
        v.push(vec![b"foo".to_vec(), long, b"quux".to_vec()]);
    }
    // 21..64 patterns with duplicated strings (ordering stability beyond small-sort thresholds)
    for _ in 0..(if thorough { 200 } else { 30 }) {
        let n = 21 + rng.below(44);
        let mut l: Vec<Vec<u8>> = (0..n).map(|_| { let k = 2 + rng.below(3); rng.bytes(b"abcdefgh", k) }).collect();
        for _ in 0..(2 + rng.below(4)) {
            let (i, j) = (rng.below(n), rng.below(n));
            l[j] = l[i].clone();
        }
        v.push(l);
    }
    let n = if thorough { 600 } else { 70 };
    for i in 0..n {
        let alpha: Vec<u8> = match i % 4 {
            0 => b"ab".to_vec(),
            1 => b"abqr".to_vec(),
            2 => vec![0x61, 0x71, 0x41, 0x16, 0x17, 0x62],
            _ => (0..(3 + rng.below(10))).map(|_| rng.below(256) as u8).collect(),
        };
        let npat = 1 + rng.below(if i % 5 == 0 { 40 } else { 9 });
        let minl = 1 + rng.below(4);
        v.push((0..npat).map(|_| { let l = minl + rng.below(5); rng.bytes(&alpha, l) }).collect());
    }
    v
}

pub static SAFETY_ONLY: std::sync::atomic::AtomicBool = std::sync::atomic::AtomicBool::new(false);
/// C10: relational mode — span search vs sub-slice search, bytes outside the span flipped
pub static SPAN_REL: std::sync::atomic::AtomicBool = std::sync::atomic::AtomicBool::new(false);

pub fn run(args: &Args) -> Report {
    SAFETY_ONLY.store(args.get("mode", "def") == "safety", std::sync::atomic::Ordering::Relaxed);
    SPAN_REL.store(args.get("mode", "def") == "span", std::sync::atomic::Ordering::Relaxed);
    let thorough = args.thorough();
    let seed = args.num("seed", 0);
    let rep = Report::new(
        match args.get("mode", "def").as_str() { "safety" => "packed[safety]", "span" => "packed[span]", _ => "packed" },
        format!("{} pattern lists (fingerprint-collision, bucket-overflow, prefix families + random), x {{leftmost-first, leftmost-longest}} x variants {:?}; haystacks of every length 0..={} (random over the list's alphabet, planted occurrences) with every span for length <= 20 and 12 sampled spans beyond",
                lists(thorough, seed).len(), VARS, if thorough { 140 } else { 100 }),
        "case = (pattern list, kind, variant, haystack, span): Searcher::find_in and find_iter vs the leftmost definition; non-trivial = some pattern occurs".into(),
    );
    if args.has("one-pats") {
        let pats = crate::gen::dec_pats(&args.get("one-pats", "-"));
        let hay = crate::gen::unhex(&args.get("one-hay", "x")[1..]);
        let sp: Vec<usize> = args.get("one-span", "0,0").split(',').map(|x| x.parse().unwrap()).collect();
        let kind = Kind::parse(&args.get("one-kind", "lf"));
        let var = VARS[args.num("one-var", 0)];
        if let Some(s) = build(var, kind, &pats) {
            check(&rep, var, kind, &pats, &s, &hay, sp[0], sp[1]);
        }
        return rep;
    }
    let ls = lists(thorough, seed);
    par_for(&ls, |pats| {
        let mut rng = Rng(pats.len() as u64 * 31 + pats[0].len() as u64 + seed as u64);
        let mut alpha: Vec<u8> = pats.iter().flatten().cloned().collect();
        alpha.sort();
        alpha.dedup();
        alpha.push(b'.');
        let longest = pats.iter().map(|p| p.len()).max().unwrap_or(0);
        let huge = longest > 1000;
        let maxlen = if huge { 0 } else { (if thorough { 140 } else { 100 }) + if longest > 30 { 2 * longest } else { 0 } };
        let mut hays = vec![];
        for l in 0..=maxlen {
            let mut h = if l % 3 == 0 { vec![b'.'; l] } else { rng.bytes(&alpha, l) };
            for _ in 0..(1 + rng.below(2)) {
                let p = &pats[rng.below(pats.len())];
                if p.len() <= l {
                    let at = rng.below(l - p.len() + 1);
                    h[at..at + p.len()].copy_from_slice(p);
                }
            }
            hays.push(h);
        }
        if huge {
            // a few constructed haystacks only (the sweep over every length would be quadratic)
            let lp = pats.iter().max_by_key(|p| p.len()).unwrap();
            hays.clear();
            let mut h = vec![b'Z'; 37];
            h.extend_from_slice(lp);
            h.extend_from_slice(b"ZZfooZZquuxZZ");
            hays.push(h);
            let mut h = lp[..lp.len() - 1].to_vec();
            h.extend_from_slice(b"#foo");
            h.extend_from_slice(lp);
            hays.push(h);
        }
        // systematic placement: one occurrence of a pattern at every position of haystacks of every
        // length up to 72 (every (length, position) class of the vector window loops and their
        // tail handling), filler = a byte that occurs in no pattern
        let mut sys_hays: Vec<Vec<u8>> = vec![];
        if let Some(filler) = (0..=255u8).rev().find(|b| !pats.iter().any(|p| p.contains(b))) {
            let picks: Vec<&Vec<u8>> = [pats.first(), pats.last()].iter().filter_map(|x| *x).filter(|p| !p.is_empty() && p.len() <= 12).collect();
            for (pi, p) in picks.iter().enumerate() {
                if pi == 1 && std::ptr::eq(*p, picks[0]) {
                    continue;
                }
                for l in p.len()..=72 {
                    for pos in 0..=(l - p.len()) {
                        // thin the product: every position for lengths in the last-window classes, every 3rd otherwise
                        if l > 40 && (pos + l) % 3 != 0 && l - pos - p.len() > 20 && pos > 20 {
                            continue;
                        }
                        let mut h = vec![filler; l];
                        h[pos..pos + p.len()].copy_from_slice(p);
                        sys_hays.push(h);
                    }
                }
            }
        }
        // near misses of the longer patterns: exactly one byte changed, at every position
        for p in pats.iter().filter(|p| p.len() >= 8 && p.len() <= 130).take(6) {
            let mut h = vec![b'.'; 20];
            for j in 0..p.len() {
                let mut q = p.clone();
                q[j] = if q[j] == b'_' { b'-' } else { b'_' };
                h.extend_from_slice(&q);
                h.push(b'.');
            }
            h.extend_from_slice(p);
            h.extend_from_slice(&[b'.'; 20]);
            hays.push(h);
        }
        // near misses of long patterns at every alignment of the candidate in memory (a long
        // confirmation may step to a word boundary first): changed byte near either end
        let mut align_hays: Vec<Vec<u8>> = vec![];
        for p in pats.iter().filter(|p| p.len() >= 33 && p.len() <= 130).take(3) {
            for shift in 0..8usize {
                let mut h = vec![b'.'; 24 + shift];
                for j in (0..p.len()).filter(|&j| j < 20 || j + 12 >= p.len()) {
                    let mut q = p.clone();
                    q[j] = if q[j] == b'_' { b'-' } else { b'_' };
                    h.extend_from_slice(&q);
                    // keep every candidate at the same alignment class
                    while (h.len() - shift) % 8 != 0 {
                        h.push(b'.');
                    }
                }
                h.extend_from_slice(p);
                h.extend_from_slice(&[b'.'; 9]);
                align_hays.push(h);
            }
        }
        for kind in [Kind::LF, Kind::LL] {
            for (vi, &var) in VARS.iter().enumerate() {
                let s = match catch_unwind(AssertUnwindSafe(|| build(var, kind, pats))) {
                    Ok(Some(s)) => s,
                    Ok(None) => {
                        rep.count(&format!("unavailable[{:?}]", var), 1);
                        continue;
                    }
                    Err(_) => {
                        rep.fail(Fail { key: format!("packed:build-panic:{}", show_pats(pats)), what: format!("building packed {:?} for {} panicked", var, show_pats(pats)), argv: vec![] });
                        continue;
                    }
                };
                rep.count(&format!("built[{:?}]", var), 1);
                let _ = vi;
                for h in &align_hays {
                    check(&rep, var, kind, pats, &s, h, 0, h.len());
                }
                // the systematic placements: whole haystack, and with the first / last byte cut off
                for h in &sys_hays {
                    check(&rep, var, kind, pats, &s, h, 0, h.len());
                    if h.len() > 1 {
                        check(&rep, var, kind, pats, &s, h, 0, h.len() - 1);
                        check(&rep, var, kind, pats, &s, h, 1, h.len());
                    }
                    if rep.full() {
                        return;
                    }
                }
                for h in &hays {
                    if h.len() <= 20 {
                        for st in 0..=h.len() {
                            for e in st..=h.len() {
                                check(&rep, var, kind, pats, &s, h, st, e);
                            }
                        }
                    } else if h.len() > 10_000 {
                        check(&rep, var, kind, pats, &s, h, 0, h.len());
                        check(&rep, var, kind, pats, &s, h, 1, h.len());
                        check(&rep, var, kind, pats, &s, h, 0, h.len() - 1);
                    } else {
                        check(&rep, var, kind, pats, &s, h, 0, h.len());
                        let mut r2 = Rng(h.len() as u64 + 5);
                        for _ in 0..12 {
                            let st = r2.below(h.len());
                            let e = st + r2.below(h.len() - st + 1);
                            check(&rep, var, kind, pats, &s, h, st, e);
                        }
                        // spans of at least a vector width that end shortly before the haystack does
                        // (occurrences straddling the span end)
                        for back in 1..=6usize {
                            let e = h.len() - back;
                            for st in [0usize, 1, e.saturating_sub(17), e.saturating_sub(33), e.saturating_sub(65)] {
                                if st <= e {
                                    check(&rep, var, kind, pats, &s, h, st, e);
                                }
                            }
                        }
                    }
                    if rep.full() {
                        return;
                    }
                }
            }
        }
    });
    rep.sample(format!("e.g. patterns {}", show_pats(&ls[1])));
    rep
}

fn check(rep: &Report, var: Var, kind: Kind, pats: &[Vec<u8>], s: &Searcher, h: &[u8], st: usize, e: usize) {
    if SAFETY_ONLY.load(std::sync::atomic::Ordering::Relaxed) {
        // C15: exactly-sized heap allocation; no panic; reported match inside the span, valid id
        let exact: Vec<u8> = h.to_vec().into_boxed_slice().into_vec();
        let got = catch_unwind(AssertUnwindSafe(|| s.find_in(&exact, aho_corasick::Span { start: st, end: e }).map(cv)));
        let ok = match &got {
            Ok(None) => true,
            Ok(Some(m)) => st <= m.start && m.start <= m.end && m.end <= e && m.pid < pats.len(),
            Err(_) => false,
        };
        rep.case(true);
        if !ok {
            let vi = VARS.iter().position(|v| *v == var).unwrap();
            rep.fail(Fail {
                key: format!("packed-safety:{}:pats={}:hay={}:span={}..{}", kind.name(), show_pats(pats), show(h), st, e),
                what: format!("packed {:?} ({}) on {} haystack '{}' span {}..{}: panicked or reported an out-of-range match: {:?}", var, kind.name(), show_pats(pats), show(h), st, e, got),
                argv: vec!["packed".into(), "--mode".into(), "safety".into(), "--one-pats".into(), enc_pats(pats), "--one-hay".into(), format!("x{}", hex(h)), "--one-span".into(), format!("{},{}", st, e), "--one-kind".into(), kind.name().into(), "--one-var".into(), vi.to_string()],
            });
        }
        return;
    }
    if SPAN_REL.load(std::sync::atomic::Ordering::Relaxed) {
        let whole = catch_unwind(AssertUnwindSafe(|| s.find_in(h, aho_corasick::Span { start: st, end: e }).map(cv)));
        let sub = catch_unwind(AssertUnwindSafe(|| {
            s.find_in(&h[st..e], aho_corasick::Span { start: 0, end: e - st }).map(cv).map(|m| M { pid: m.pid, start: m.start + st, end: m.end + st })
        }));
        let mut h2 = h.to_vec();
        for (i, x) in h2.iter_mut().enumerate() {
            if i < st || i >= e {
                *x = x.wrapping_add(1);
            }
        }
        let other = catch_unwind(AssertUnwindSafe(|| s.find_in(&h2, aho_corasick::Span { start: st, end: e }).map(cv)));
        let ok = matches!((&whole, &sub, &other), (Ok(w), Ok(sb), Ok(o)) if w == sb && w == o);
        rep.case(matches!(&whole, Ok(Some(_))));
        if !ok {
            let vi = VARS.iter().position(|v| *v == var).unwrap();
            rep.fail(Fail {
                key: format!("packed-span:{}:pats={}:hay={}:span={}..{}", kind.name(), show_pats(pats), show(h), st, e),
                what: format!("packed {:?} ({}) on {} haystack '{}' span {}..{}: span search {:?}, sub-slice search shifted {:?}, with the bytes outside the span changed {:?}", var, kind.name(), show_pats(pats), show(h), st, e, whole, sub, other),
                argv: vec!["packed".into(), "--mode".into(), "span".into(), "--one-pats".into(), enc_pats(pats), "--one-hay".into(), format!("x{}", hex(h)), "--one-span".into(), format!("{},{}", st, e), "--one-kind".into(), kind.name().into(), "--one-var".into(), vi.to_string()],
            });
        }
        return;
    }
    let want = oracle::find(pats, false, kind, h, st, e, false);
    let got = catch_unwind(AssertUnwindSafe(|| s.find_in(h, aho_corasick::Span { start: st, end: e }).map(cv)));
    let mut ok = matches!(&got, Ok(g) if *g == want);
    let mut what = format!("find_in expected {:?}, got {:?}", want, got);
    if ok && st == 0 && e == h.len() {
        let wi = oracle::iter(pats, false, kind, h, 0, h.len(), false);
        let gi = catch_unwind(AssertUnwindSafe(|| s.find_iter(h).map(cv).collect::<Vec<M>>()));
        ok = matches!(&gi, Ok(g) if *g == wi);
        what = format!("find_iter expected {:?}, got {:?}", wi, gi);
        if ok && wi.len() <= 5 && h.len() % 3 == 0 {
            if let Ok(Err(why)) = catch_unwind(AssertUnwindSafe(|| crate::gen::iter_protocol(&|| s.find_iter(h), &cv, &wi))) {
                ok = false;
                what = format!("find_iter: Iterator protocol: {}", why);
            }
        }
    }
    rep.case(want.is_some());
    if !ok {
        let vi = VARS.iter().position(|v| *v == var).unwrap();
        rep.fail(Fail {
            key: format!("packed:{}:pats={}:hay={}:span={}..{}", kind.name(), show_pats(pats), show(h), st, e),
            what: format!("packed {:?} ({}) on {} haystack '{}' (len {}) span {}..{}: {}", var, kind.name(), show_pats(pats), show(h), h.len(), st, e, what),
            argv: vec!["packed".into(), "--one-pats".into(), enc_pats(pats), "--one-hay".into(), format!("x{}", hex(h)), "--one-span".into(), format!("{},{}", st, e), "--one-kind".into(), kind.name().into(), "--one-var".into(), vi.to_string()],
        });
    }
}
