//! B7: the Automaton contract AC (= property C16) executed on every reachable state of the real
//! automata: all reachable states x 256 bytes x both anchoring arguments.
//! B2: bisimulation between the reference noncontiguous NFA and every other representation
//! (exhaustive over haystacks per automaton; bounded over pattern lists).
use crate::eng::{build, with_low, with_low_pair, Built, Cfg, DynAut};
use crate::gen::{enc_pats, show_pats};
use crate::oracle::Kind;
use crate::sem::{cfg_set, family};
use crate::{par_for, Args, Fail, Report};
use aho_corasick::MatchKind;
use std::collections::{HashMap, HashSet, VecDeque};
use std::panic::{catch_unwind, AssertUnwindSafe};

fn fail(rep: &Report, clause: &str, cfg: &Cfg, pats: &[Vec<u8>], detail: String) {
    rep.fail(Fail {
        key: format!("ac:{}:{}:ci={}:pats={}", clause, cfg.mk.name(), cfg.ci as u8, show_pats(pats)),
        what: format!("AC clause '{}' fails for {} built as {}: {}", clause, show_pats(pats), cfg.encode(), detail),
        argv: vec!["ac".into(), "--one-cfg".into(), cfg.encode(), "--one-pats".into(), if pats.is_empty() { "-".into() } else { enc_pats(pats) }],
    });
}

/// check every clause of aut_wf (contracts/prelude/automaton.inc) on one automaton
pub fn check_ac(rep: &Report, cfg: &Cfg, pats: &[Vec<u8>], a: &dyn DynAut) {
    let mut starts: Vec<(bool, u32)> = vec![];
    for anch in [false, true] {
        let want = cfg.supports(anch);
        match a.start_state(anch) {
            Ok(s) => {
                if !want {
                    fail(rep, "start_state fails exactly for unsupported anchoring", cfg, pats, format!("anchored={} gave Ok", anch));
                }
                starts.push((anch, s));
            }
            Err(_) => {
                if want {
                    fail(rep, "start_state fails exactly for unsupported anchoring", cfg, pats, format!("anchored={} gave Err", anch));
                }
            }
        }
    }
    // valid states: closure under both transition functions from every start state; BFS depth
    let mut depth: HashMap<u32, usize> = HashMap::new();
    let mut q = VecDeque::new();
    for &(_, s) in &starts {
        depth.entry(s).or_insert_with(|| {
            q.push_back(s);
            0
        });
    }
    let has_pre = a.has_prefilter();
    let npat = a.patterns_len();
    let maxlen = a.max_pattern_len();
    let minlen = a.min_pattern_len();
    let leftmost = a.match_kind() != MatchKind::Standard;
    let ustart = starts.iter().find(|x| !x.0).map(|x| x.1);
    let mut nstates = 0usize;
    let mut match_states = vec![];
    // states on an anchored run (areach)
    let mut areach: HashSet<u32> = HashSet::new();
    if let Some(&(_, s)) = starts.iter().find(|x| x.0) {
        let mut aq = VecDeque::from([s]);
        areach.insert(s);
        while let Some(s) = aq.pop_front() {
            for b in 0..=255u8 {
                let t = a.next_state(true, s, b);
                if a.is_start(t) && !a.is_dead(t) {
                    fail(rep, "an anchored run never re-enters a start state", cfg, pats, format!("state {} byte {} -> start state {}", s, b, t));
                }
                if areach.insert(t) {
                    aq.push_back(t);
                }
            }
        }
    }
    while let Some(s) = q.pop_front() {
        nstates += 1;
        let d = depth[&s];
        let (dead, mat, special, start) = (a.is_dead(s), a.is_match(s), a.is_special(s), a.is_start(s));
        if dead && !special {
            fail(rep, "dead => special", cfg, pats, format!("state {}", s));
        }
        if mat && (!special || dead) {
            fail(rep, "match => special and not dead", cfg, pats, format!("state {}", s));
        }
        if special && !(dead || mat || start) {
            fail(rep, "special => dead or match or start", cfg, pats, format!("state {}", s));
        }
        if special && !has_pre && !(dead || mat) {
            fail(rep, "start states are special only with a prefilter", cfg, pats, format!("state {}", s));
        }
        if !dead && d > maxlen {
            fail(rep, "depth <= max pattern length", cfg, pats, format!("state {} depth {} maxlen {}", s, d, maxlen));
        }
        if starts.iter().any(|x| x.1 == s) {
            if dead {
                fail(rep, "start state is not dead", cfg, pats, format!("state {}", s));
            }
            if !start {
                fail(rep, "start_state() is a start state", cfg, pats, format!("state {}", s));
            }
        }
        if mat {
            match_states.push(s);
            let n = a.match_len(s);
            if n == 0 {
                fail(rep, "match states list at least one pattern", cfg, pats, format!("state {}", s));
            }
            for i in 0..n {
                let p = a.match_pattern(s, i);
                if p >= npat {
                    fail(rep, "listed pattern ids are valid", cfg, pats, format!("state {} index {} pid {} npat {}", s, i, p, npat));
                } else if a.pattern_len(p) > d {
                    fail(rep, "pattern_len(match_pattern) <= depth", cfg, pats, format!("state {} pid {} len {} depth {}", s, p, a.pattern_len(p), d));
                }
            }
        }
        for anch in [false, true] {
            for b in 0..=255u8 {
                let t = a.next_state(anch, s, b);
                if dead && !a.is_dead(t) {
                    fail(rep, "the dead state is absorbing", cfg, pats, format!("dead {} byte {} -> {}", s, b, t));
                }
                if !anch && a.is_start(t) && !a.is_dead(t) && Some(t) != ustart {
                    fail(rep, "an unanchored run re-enters only the unanchored start state", cfg, pats, format!("state {} byte {} -> {}", s, b, t));
                }
                if !depth.contains_key(&t) {
                    depth.insert(t, d + 1);
                    q.push_back(t);
                }
            }
        }
        if rep.full() {
            return;
        }
    }
    for p in 0..npat {
        let l = a.pattern_len(p);
        // the min/max clause is what the stream buffer relies on (C07: min = max(1, longest
        // pattern)); it is not part of the statement of C16, so C16 runs without it
        let lens = LENS.load(std::sync::atomic::Ordering::Relaxed);
        if l != pats[p].len() || (lens && (l < minlen || l > maxlen)) {
            fail(rep, "pattern_len / min / max agree with the input", cfg, pats, format!("pid {} len {} (min {} max {})", p, l, minlen, maxlen));
        }
    }
    if has_pre {
        if let Some(u) = ustart {
            if a.is_match(u) {
                fail(rep, "a prefilter implies the start state is not a match state", cfg, pats, format!("state {}", u));
            }
        }
    }
    // leftmost kinds: from a match state, an unanchored run never returns to a start state
    if leftmost && has_pre {
        let mut seen: HashSet<u32> = match_states.iter().cloned().collect();
        let mut q: VecDeque<u32> = match_states.iter().cloned().collect();
        while let Some(s) = q.pop_front() {
            if a.is_start(s) && !a.is_dead(s) {
                fail(rep, "leftmost: after a match state the start state is never re-entered", cfg, pats, format!("state {}", s));
                break;
            }
            for b in 0..=255u8 {
                let t = a.next_state(false, s, b);
                if seen.insert(t) {
                    q.push_back(t);
                }
            }
        }
    }
    rep.cases_n(nstates * 512, nstates * 512);
    rep.count("states_walked", nstates);
}

/// C16/C04: a borrowed automaton (`&A`, the forwarding impl in automaton.rs) answers every
/// low-level method like the automaton itself, on every reachable state
pub fn check_forward(rep: &Report, cfg: &Cfg, pats: &[Vec<u8>], a: &dyn DynAut, r: &dyn DynAut) {
    let bad = |what: &str, detail: String| fail(rep, &format!("a borrowed automaton forwards {}", what), cfg, pats, detail);
    if a.patterns_len() != r.patterns_len() {
        bad("patterns_len", format!("{} vs {}", a.patterns_len(), r.patterns_len()));
    }
    if a.min_pattern_len() != r.min_pattern_len() {
        bad("min_pattern_len", format!("{} vs {}", a.min_pattern_len(), r.min_pattern_len()));
    }
    if a.max_pattern_len() != r.max_pattern_len() {
        bad("max_pattern_len", format!("{} vs {}", a.max_pattern_len(), r.max_pattern_len()));
    }
    if a.match_kind() != r.match_kind() {
        bad("match_kind", String::new());
    }
    if a.has_prefilter() != r.has_prefilter() {
        bad("prefilter", String::new());
    }
    for p in 0..a.patterns_len().min(64) {
        if a.pattern_len(p) != r.pattern_len(p) {
            bad("pattern_len", format!("pattern {}", p));
        }
    }
    let mut seen: HashSet<u32> = HashSet::new();
    let mut q = VecDeque::new();
    for anch in [false, true] {
        let (x, y) = (a.start_state(anch), r.start_state(anch));
        if x != y {
            bad("start_state", format!("anchored={}: {:?} vs {:?}", anch, x, y));
        }
        if let Ok(s) = x {
            if seen.insert(s) {
                q.push_back(s);
            }
        }
    }
    let mut n = 0usize;
    while let Some(s) = q.pop_front() {
        n += 1;
        if n > 3000 {
            break;
        }
        if (a.is_dead(s), a.is_match(s), a.is_special(s), a.is_start(s)) != (r.is_dead(s), r.is_match(s), r.is_special(s), r.is_start(s)) {
            bad("is_dead/is_match/is_special/is_start", format!("state {}", s));
        }
        if a.is_match(s) {
            if a.match_len(s) != r.match_len(s) {
                bad("match_len", format!("state {}", s));
            } else {
                for i in 0..a.match_len(s) {
                    if a.match_pattern(s, i) != r.match_pattern(s, i) {
                        bad("match_pattern", format!("state {} index {}", s, i));
                    }
                }
            }
        }
        for anch in [false, true] {
            for b in 0..=255u8 {
                let t = a.next_state(anch, s, b);
                if t != r.next_state(anch, s, b) {
                    bad("next_state", format!("state {} byte {}", s, b));
                    return;
                }
                if seen.insert(t) {
                    q.push_back(t);
                }
            }
        }
    }
    rep.cases_n(n * 512, n * 512);
}

pub static LENS: std::sync::atomic::AtomicBool = std::sync::atomic::AtomicBool::new(false);

pub fn run(args: &Args) -> Report {
    LENS.store(args.get("lens", "0") == "1", std::sync::atomic::Ordering::Relaxed);
    let thorough = args.thorough();
    let seed = args.num("seed", 0);
    let rep = Report::new(
        if args.get("lens", "0") == "1" { "ac[+lens]" } else { "ac" },
        format!("pattern families {} (tier {}); per automaton: every reachable state x 256 bytes x both anchoring arguments (exhaustive)", args.get("families", "small,abc,ci"), args.get("tier", "quick")),
        "case = (automaton, state, byte, anchoring); every clause of aut_wf in contracts/prelude/automaton.inc is evaluated".into(),
    );
    if args.has("one-cfg") {
        let cfg = Cfg::parse(&args.get("one-cfg", ""));
        let pats = crate::gen::dec_pats(&args.get("one-pats", "-"));
        if let Ok(b) = build(&cfg, &pats) {
            with_low(&b, &mut |a| check_ac(&rep, &cfg, &pats, a));
        }
        return rep;
    }
    for fname in args.get("families", "small,abc,ci").split(',') {
        let fam = family(fname, thorough, seed);
        rep.count(&format!("pattern_lists[{}]", fname), fam.lists.len());
        par_for(&fam.lists, |pats| {
            for kind in [Kind::Std, Kind::LF, Kind::LL] {
                for ci in [false, true] {
                    if ci != (fname == "ci") && !thorough {
                        continue;
                    }
                    let mut cfgs = cfg_set("low", kind, ci, thorough);
                    // also with prefilters on
                    for c in cfg_set("low", kind, ci, false).into_iter().step_by(3) {
                        cfgs.push(Cfg { pre: true, ..c });
                    }
                    for cfg in cfgs {
                        let r = catch_unwind(AssertUnwindSafe(|| {
                            if let Ok(b) = build(&cfg, pats) {
                                with_low(&b, &mut |a| check_ac(&rep, &cfg, pats, a));
                                if !LENS.load(std::sync::atomic::Ordering::Relaxed) {
                                    with_low_pair(&b, &mut |a, r| check_forward(&rep, &cfg, pats, a, r));
                                }
                            }
                        }));
                        if r.is_err() {
                            fail(&rep, "transitions and accessors never panic", &cfg, pats, "panic".into());
                        }
                        if rep.full() {
                            return;
                        }
                    }
                    // automata derived from a noncontiguous NFA (with and without a prefilter) by
                    // builders whose own options differ from the NFA's
                    let r = catch_unwind(AssertUnwindSafe(|| check_derived(&rep, pats, kind, ci)));
                    if r.is_err() {
                        fail(&rep, "transitions and accessors never panic", &cfg_set("nc", kind, ci, false)[0], pats, "panic in an automaton derived by build_from_noncontiguous".into());
                    }
                }
            }
        });
    }
    rep.sample("clauses: start_state fails exactly for unsupported anchoring; dead absorbing; dead/match => special; special => dead|match|start; match lists >= 1 valid pid with pattern_len <= depth; unanchored run re-enters only the unanchored start; anchored run never re-enters a start; leftmost: no start after a match; start special only with prefilter".into());
    rep
}

/// product BFS of two automata; they must agree on dead/match flags, match lists and lengths
fn bisim_pair(rep: &Report, cfg_a: &Cfg, a: &dyn DynAut, cfg_b: &Cfg, b: &dyn DynAut, pats: &[Vec<u8>]) {
    let mut n = 0usize;
    for anch in [false, true] {
        if !cfg_a.supports(anch) || !cfg_b.supports(anch) {
            continue;
        }
        let (sa, sb) = match (a.start_state(anch), b.start_state(anch)) {
            (Ok(x), Ok(y)) => (x, y),
            _ => continue,
        };
        let mut seen: HashSet<(u32, u32)> = HashSet::new();
        let mut q = VecDeque::from([(sa, sb)]);
        seen.insert((sa, sb));
        while let Some((x, y)) = q.pop_front() {
            n += 1;
            let mut bad = None;
            if a.is_dead(x) != b.is_dead(y) {
                bad = Some("dead flag".to_string());
            } else if a.is_match(x) != b.is_match(y) {
                bad = Some("match flag".to_string());
            } else if a.is_match(x) {
                let (la, lb) = (a.match_len(x), b.match_len(y));
                if la != lb {
                    bad = Some(format!("match_len {} vs {}", la, lb));
                } else {
                    for i in 0..la {
                        let (pa, pb) = (a.match_pattern(x, i), b.match_pattern(y, i));
                        if pa != pb || a.pattern_len(pa) != b.pattern_len(pb) {
                            bad = Some(format!("match_pattern[{}] {} vs {}", i, pa, pb));
                        }
                    }
                }
            }
            if let Some(w) = bad {
                rep.fail(Fail {
                    key: format!("bisim:{}:ci={}:pats={}:{}", cfg_b.mk.name(), cfg_b.ci as u8, show_pats(pats), cfg_b.encode()),
                    what: format!("representations disagree for {} (anchored={}): {} vs {}: {} at product state ({},{})", show_pats(pats), anch, cfg_a.encode(), cfg_b.encode(), w, x, y),
                    argv: vec!["bisim".into(), "--one-cfg".into(), cfg_b.encode(), "--one-pats".into(), if pats.is_empty() { "-".into() } else { enc_pats(pats) }],
                });
                return;
            }
            if a.is_dead(x) {
                continue;
            }
            for byte in 0..=255u8 {
                let nx = (a.next_state(anch, x, byte), b.next_state(anch, y, byte));
                if seen.insert(nx) {
                    q.push_back(nx);
                }
            }
        }
    }
    rep.cases_n(n * 256, n * 256);
}

pub fn bisim_one(rep: &Report, pats: &[Vec<u8>], kind: Kind, ci: bool, thorough: bool, only: Option<&Cfg>) {
    let reference = cfg_set("nc", kind, ci, false)[0];
    let ra = match build(&reference, pats) {
        Ok(b) => b,
        Err(_) => return,
    };
    let mut others = cfg_set("low", kind, ci, thorough);
    for c in cfg_set("low", kind, ci, false).into_iter().step_by(2) {
        others.push(Cfg { pre: true, ..c });
    }
    if let Some(c) = only {
        others = vec![*c];
    }
    for cfg in others {
        if cfg == reference {
            continue;
        }
        let r = catch_unwind(AssertUnwindSafe(|| {
            if let Ok(bb) = build(&cfg, pats) {
                with_low(&ra, &mut |a| {
                    with_low(&bb, &mut |b| bisim_pair(rep, &reference, a, &cfg, b, pats));
                });
            }
        }));
        if r.is_err() {
            rep.fail(Fail {
                key: format!("bisim:panic:{}:{}", show_pats(pats), cfg.encode()),
                what: format!("panic while walking {} for {}", cfg.encode(), show_pats(pats)),
                argv: vec![],
            });
        }
        if rep.full() {
            return;
        }
    }
    // the documented use of `build_from_noncontiguous`: the derived automaton takes its semantics
    // from the NFA, whatever the (default-configured) deriving builder says
    if only.is_none() {
        if let Built::NC(nnfa) = &ra {
            let derived: Vec<(&str, Result<Built, String>)> = vec![
                ("dfa::Builder::new().build_from_noncontiguous", aho_corasick::dfa::Builder::new().build_from_noncontiguous(nnfa).map(Built::D).map_err(|e| e.to_string())),
                ("dfa::Builder(start_kind Both, no byte classes).build_from_noncontiguous", aho_corasick::dfa::Builder::new().start_kind(aho_corasick::StartKind::Both).byte_classes(false).build_from_noncontiguous(nnfa).map(Built::D).map_err(|e| e.to_string())),
                ("contiguous::Builder::new().build_from_noncontiguous", aho_corasick::nfa::contiguous::Builder::new().build_from_noncontiguous(nnfa).map(Built::C).map_err(|e| e.to_string())),
            ];
            // ... also from an NFA that carries a prefilter, by builders whose build()-only options
            // (prefilter, match kind, case folding) are set: they have no say in a derived automaton
            let mut derived = derived;
            let mut with_pre = aho_corasick::nfa::noncontiguous::Builder::new();
            with_pre.match_kind(crate::eng::mk_real(kind)).ascii_case_insensitive(ci).prefilter(true);
            let nn2 = with_pre.build(pats).ok();
            if let Some(nn2) = &nn2 {
                derived.push(("contiguous::Builder(prefilter false, match kind LeftmostFirst, ci).build_from_noncontiguous(NFA with prefilter)", aho_corasick::nfa::contiguous::Builder::new().prefilter(false).match_kind(aho_corasick::MatchKind::LeftmostFirst).ascii_case_insensitive(true).build_from_noncontiguous(nn2).map(Built::C).map_err(|e| e.to_string())));
                derived.push(("dfa::Builder(prefilter false, match kind LeftmostLongest).build_from_noncontiguous(NFA with prefilter)", aho_corasick::dfa::Builder::new().prefilter(false).match_kind(aho_corasick::MatchKind::LeftmostLongest).build_from_noncontiguous(nn2).map(Built::D).map_err(|e| e.to_string())));
            }
            for (name, d) in derived {
                if let Ok(bb) = d {
                    // the derived automaton obeys the Automaton contract itself (special flags, ...)
                    {
                        let cfg2 = Cfg { engine: if matches!(bb, Built::D(_)) { crate::eng::Engine::LowDfa } else { crate::eng::Engine::LowContig }, sk: if name.contains("Both") { crate::eng::StartKindC::B } else if matches!(bb, Built::D(_)) { crate::eng::StartKindC::U } else { crate::eng::StartKindC::B }, pre: name.contains("with prefilter"), ..reference };
                        with_low(&bb, &mut |b| check_ac(rep, &cfg2, pats, b));
                    }
                    let cfg = Cfg { engine: if matches!(bb, Built::D(_)) { crate::eng::Engine::LowDfa } else { crate::eng::Engine::LowContig }, sk: if name.contains("Both") { crate::eng::StartKindC::B } else if matches!(bb, Built::D(_)) { crate::eng::StartKindC::U } else { crate::eng::StartKindC::B }, ..reference };
                    with_low(&ra, &mut |a| {
                        with_low(&bb, &mut |b| {
                            if a.match_kind() != b.match_kind() {
                                rep.fail(Fail { key: format!("bisim:derived-kind:{}:{}", name, kind.name()), what: format!("{} of a {} NFA for {} reports match kind {:?}", name, kind.name(), show_pats(pats), b.match_kind()), argv: vec![] });
                            }
                            bisim_pair(rep, &reference, a, &cfg, b, pats);
                        });
                    });
                }
            }
        }
    }
    let _ = Built::top;
}

/// `aut_wf` on automata made by `build_from_noncontiguous`: from an NFA without and with a
/// prefilter, by builders with default options and with options that differ from the NFA's
pub fn check_derived(rep: &Report, pats: &[Vec<u8>], kind: Kind, ci: bool) {
    use aho_corasick::{dfa, nfa::contiguous, nfa::noncontiguous, MatchKind, StartKind};
    let reference = cfg_set("nc", kind, ci, false)[0];
    for pre in [false, true] {
        let mut nb = noncontiguous::Builder::new();
        nb.match_kind(crate::eng::mk_real(kind)).ascii_case_insensitive(ci).prefilter(pre);
        let nn = match nb.build(pats) {
            Ok(n) => n,
            Err(_) => continue,
        };
        let other_mk = if kind == Kind::LF { MatchKind::LeftmostLongest } else { MatchKind::LeftmostFirst };
        let derived: Vec<(crate::eng::StartKindC, Result<Built, String>)> = vec![
            (crate::eng::StartKindC::B, contiguous::Builder::new().build_from_noncontiguous(&nn).map(Built::C).map_err(|e| e.to_string())),
            (crate::eng::StartKindC::B, contiguous::Builder::new().prefilter(!pre).match_kind(other_mk).ascii_case_insensitive(!ci).build_from_noncontiguous(&nn).map(Built::C).map_err(|e| e.to_string())),
            (crate::eng::StartKindC::B, contiguous::Builder::new().prefilter(false).dense_depth(0).byte_classes(false).build_from_noncontiguous(&nn).map(Built::C).map_err(|e| e.to_string())),
            (crate::eng::StartKindC::U, dfa::Builder::new().build_from_noncontiguous(&nn).map(Built::D).map_err(|e| e.to_string())),
            (crate::eng::StartKindC::B, dfa::Builder::new().prefilter(!pre).match_kind(other_mk).ascii_case_insensitive(!ci).start_kind(StartKind::Both).build_from_noncontiguous(&nn).map(Built::D).map_err(|e| e.to_string())),
            (crate::eng::StartKindC::A, dfa::Builder::new().prefilter(false).start_kind(StartKind::Anchored).byte_classes(false).build_from_noncontiguous(&nn).map(Built::D).map_err(|e| e.to_string())),
        ];
        for (sk, d) in derived {
            if let Ok(bb) = d {
                let cfg = Cfg { engine: if matches!(bb, Built::D(_)) { crate::eng::Engine::LowDfa } else { crate::eng::Engine::LowContig }, sk, pre, ..reference };
                with_low(&bb, &mut |b| check_ac(rep, &cfg, pats, b));
            }
        }
    }
}

/// SC-std on long failure chains: patterns a, aa, ..., a^K (every pattern a suffix of the next).
/// After reading a^e the state lists exactly min(e, K) patterns, longest first — checked through
/// the low-level API for every e <= K + 40, for K beyond any list-length threshold.
pub fn nested(args: &Args) -> Report {
    let rep = Report::new(
        "nested",
        "patterns a^1..a^K for K in {40, 1100, 2100} x standard kind x {noncontiguous, contiguous, DFA}: after a^e the match list is a^min(e,K), ..., a^1 (ids in that order); plus overlapping search on a^(K+40) counted against the closed form".into(),
        "case = (K, configuration, prefix length e)".into(),
    );
    let ks: Vec<usize> = if args.thorough() { vec![40, 1100, 2100] } else { vec![40, 1100] };
    for k in ks {
        let pats: Vec<Vec<u8>> = (1..=k).map(|n| vec![b'a'; n]).collect();
        for (ci, cfg) in cfg_set("low", Kind::Std, false, false).into_iter().step_by(2).enumerate() {
            if !cfg.supports(false) || (k > 1500 && cfg.engine == crate::eng::Engine::LowDfa) {
                continue;
            }
            let b = match catch_unwind(AssertUnwindSafe(|| build(&cfg, &pats))) {
                Ok(Ok(b)) => b,
                _ => {
                    rep.fail(Fail { key: format!("nested:build:{}:{}", k, cfg.encode()), what: format!("building {} nested patterns [{}] failed or panicked", k, cfg.encode()), argv: vec!["nested".into()] });
                    continue;
                }
            };
            with_low(&b, &mut |a| {
                let mut s = match a.start_state(false) {
                    Ok(s) => s,
                    Err(_) => return,
                };
                for e in 1..=(k + 40) {
                    s = a.next_state(false, s, b'a');
                    rep.case(true);
                    let want = e.min(k);
                    let n = if a.is_match(s) { a.match_len(s) } else { 0 };
                    let mut ok = n == want;
                    if ok {
                        for i in [0usize, 1, want / 2, want.saturating_sub(2), want - 1] {
                            if i < want && a.match_pattern(s, i) != want - 1 - i {
                                ok = false;
                            }
                        }
                    }
                    if !ok {
                        rep.fail(Fail { key: format!("nested:{}:{}", k, cfg.encode()), what: format!("patterns a^1..a^{} [{}]: after a^{} the state lists {} patterns, expected {} (a^{} first, a^1 last)", k, cfg.encode(), e, n, want, want), argv: vec!["nested".into()] });
                        return;
                    }
                }
            });
            // the overlapping API on the whole haystack: sum over e of min(e, K) matches
            if k > 100 && ci % 3 != 0 {
                continue;
            }
            let hay = vec![b'a'; k + 40];
            let total: usize = (1..=k + 40).map(|e| e.min(k)).sum();
            rep.case(true);
            match catch_unwind(AssertUnwindSafe(|| b.try_find_overlapping_iter(&hay, 0, hay.len(), false))) {
                Ok(Ok(v)) if v.len() == total => {}
                other => rep.fail(Fail { key: format!("nested:ov:{}:{}", k, cfg.encode()), what: format!("patterns a^1..a^{} [{}]: overlapping search on a^{} yields {:?} matches, expected {}", k, cfg.encode(), k + 40, other.map(|r| r.map(|v| v.len())), total), argv: vec!["nested".into()] }),
            }
        }
    }
    rep
}

pub fn bisim(args: &Args) -> Report {
    let thorough = args.thorough();
    let seed = args.num("seed", 0);
    let rep = Report::new(
        "bisim",
        format!("pattern families {} (tier {}); per pattern list: product BFS of the reference noncontiguous NFA with every low-level configuration over all 256 bytes from both start states — exhaustive over haystacks of every length", args.get("families", "small,abc,ci,wide"), args.get("tier", "quick")),
        "case = (product state, byte); compared: dead flag, match flag, match list (ids, order, lengths)".into(),
    );
    if args.has("one-cfg") {
        let cfg = Cfg::parse(&args.get("one-cfg", ""));
        let pats = crate::gen::dec_pats(&args.get("one-pats", "-"));
        bisim_one(&rep, &pats, cfg.mk, cfg.ci, false, Some(&cfg));
        return rep;
    }
    for fname in args.get("families", "small,abc,ci,wide").split(',') {
        let lists = if fname == "wide" { wide_lists(thorough, seed) } else { family(fname, thorough, seed).lists };
        rep.count(&format!("pattern_lists[{}]", fname), lists.len());
        par_for(&lists, |pats| {
            for kind in [Kind::Std, Kind::LF, Kind::LL] {
                for ci in [false, true] {
                    if ci != (fname == "ci") && !(thorough || fname == "wide") {
                        continue;
                    }
                    bisim_one(&rep, pats, kind, ci, thorough, None);
                    if rep.full() {
                        return;
                    }
                }
            }
        });
    }
    rep
}

/// shape-directed lists: states with > 127 transitions, 256-class alphabets, many patterns,
/// long patterns, a^k b, nested suffixes
pub fn wide_lists(thorough: bool, seed: usize) -> Vec<Vec<Vec<u8>>> {
    let mut v: Vec<Vec<Vec<u8>>> = vec![];
    // all 256 single bytes; 200 two-byte patterns sharing a first byte (state with 200 transitions)
    v.push((0..=255u8).map(|b| vec![b]).collect());
    v.push((0..200u8).map(|b| vec![b'x', b]).collect());
    v.push((0..130u8).map(|b| vec![b'x', b, b'y']).chain((0..130u8).map(|b| vec![b, b'x'])).collect());
    // a^k b family, nested suffixes
    v.push((1..12).map(|k| { let mut p = vec![b'a'; k]; p.push(b'b'); p }).collect());
    v.push((1..10).map(|k| b"abcdefghij"[10 - k..].to_vec()).collect());
    v.push((1..10).map(|k| b"abcdefghij"[..k].to_vec()).collect());
    v.push(vec![vec![b'a'; 300], vec![b'a'; 299], b"aab".to_vec()]);
    // sparse-chunk boundaries of the contiguous NFA: 1..=9 transitions out of one state
    for k in 1..=9u8 {
        v.push((0..k).map(|i| vec![b'q', b'a' + i * 3, b'z']).collect());
    }
    // fan-out boundaries of the state encodings (u8 kind byte: 0xFE = one transition, 0xFF =
    // dense; 127 = sparse limit; 4-class chunks), at depth 1 and depth 3
    for k in [10usize, 15, 16, 17, 31, 32, 33, 63, 64, 65, 126, 127, 128, 129, 200, 252, 253, 254, 255, 256] {
        for prefix in [&b"x"[..], &b"abc"[..]] {
            v.push((0..k).map(|i| { let mut p = prefix.to_vec(); p.push(i as u8); p }).collect());
            if k >= 126 {
                // ... and the same state being a match state itself
                let mut l: Vec<Vec<u8>> = (0..k).map(|i| { let mut p = prefix.to_vec(); p.push(i as u8); p }).collect();
                l.push(prefix.to_vec());
                v.push(l);
            }
        }
    }
    // long match lists (>= 128 / 256 entries in one state) and deep inheritance chains
    v.push((0..130).map(|_| b"ab".to_vec()).collect());
    v.push((0..260).map(|i| if i % 2 == 0 { b"ab".to_vec() } else { b"b".to_vec() }).collect());
    v.push((0..12).map(|k| b"abcdefghijkl"[k..].to_vec()).collect());
    v.push((0..12).rev().map(|k| b"abcdefghijkl"[k..].to_vec()).collect());
    // more than 128 (and all 256) byte classes together with suffix structure: short patterns ending in
    // low / high bytes that are suffixes of prefixes of longer ones (inherited matches in every class)
    for nsingle in [130usize, 200, 256] {
        let mut l: Vec<Vec<u8>> = (0..nsingle).map(|b| vec![(255 - b) as u8]).collect();
        l.push(vec![b'c', b'a', b'f', 0xC3, 0xA9]);
        l.push(vec![0xC3, 0xA9, b'z']);
        l.push(vec![b'f', 0xC3]);
        l.push(vec![0x01, 0xFE, 0x02, 0xFF]);
        l.push(vec![0xFE, 0x02]);
        l.push(vec![0x02, 0xFF, 0x00]);
        v.push(l);
        let mut l2: Vec<Vec<u8>> = vec![vec![0xF0, 0x9F, 0x98, 0x80], vec![0x9F, 0x98], vec![0x98]];
        l2.extend((0..nsingle).map(|b| vec![b as u8, (b as u8) ^ 0x55]));
        v.push(l2);
    }
    // >100 patterns (automatic kind selection switches away from the DFA)
    v.push((0..120u16).map(|i| vec![b'a' + (i % 26) as u8, b'a' + (i / 26) as u8, b'k']).collect());
    let mut rng = crate::gen::Rng(77 + seed as u64);
    for _ in 0..(if thorough { 60 } else { 8 }) {
        let n = 2 + rng.below(40);
        let alpha: Vec<u8> = (0..(2 + rng.below(20))).map(|_| rng.below(256) as u8).collect();
        v.push((0..n).map(|_| { let l = 1 + rng.below(6); rng.bytes(&alpha, l) }).collect());
    }
    v
}

pub fn faildepth(args: &Args) -> Report {
    crate::misc::faildepth(args)
}


/// B9: the representation invariant `dfa_wf` that unit u3_dfa assumes of a built DFA, executed
/// clause by clause on real DFAs through hook H1.
pub fn repr(args: &Args) -> Report {
    let thorough = args.thorough();
    let seed = args.num("seed", 0);
    let rep = Report::new(
        "repr[dfa]",
        format!("pattern families small,abc,ci,bytes,wide (tier {}) x 3 match kinds x start kinds U/A/B x byte classes on/off x ci: every clause of dfa_wf (contracts/units/u3_dfa.rs.tpl) on the whole transition table", args.get("tier", "quick")),
        "case = one table entry / state of one real DFA".into(),
    );
    for fname in ["small", "abc", "ci", "bytes", "wide"] {
        let mut lists = if fname == "wide" { wide_lists(thorough, seed) } else { family(fname, thorough, seed).lists };
        if fname == "small" {
            lists.push(vec![]);
            lists.push(vec![vec![]]);
        }
        par_for(&lists, |pats| {
            for kind in [Kind::Std, Kind::LF, Kind::LL] {
                for (sk, bc, ci) in [(aho_corasick::StartKind::Unanchored, true, false), (aho_corasick::StartKind::Both, false, false), (aho_corasick::StartKind::Anchored, true, true), (aho_corasick::StartKind::Both, true, fname == "ci")] {
                    let d = match aho_corasick::dfa::Builder::new().match_kind(crate::eng::mk_real(kind)).start_kind(sk).byte_classes(bc).ascii_case_insensitive(ci).build(pats) {
                        Ok(d) => d,
                        Err(_) => continue,
                    };
                    let [stride2, alphabet_len, nlists, npat] = d.verif_dims();
                    let trans = d.verif_trans();
                    let sp = d.verif_special();
                    let bad = |clause: &str, detail: String| {
                        rep.fail(Fail {
                            key: format!("repr:dfa:{}:{}:{}", clause, kind.name(), show_pats(&pats[..pats.len().min(4)])),
                            what: format!("dfa_wf clause '{}' fails for {} (kind {}, start kind {:?}, byte classes {}): {}", clause, show_pats(&pats[..pats.len().min(4)]), kind.name(), sk, bc, detail),
                            argv: vec!["repr".into()],
                        });
                    };
                    if stride2 > 9 {
                        bad("stride2 <= 9", format!("{}", stride2));
                        continue;
                    }
                    let stride = 1usize << stride2;
                    let valid = |s: usize| s % stride == 0 && s + stride <= trans.len() && s != stride;
                    if trans.len() < 2 * stride || trans.len() > 0x7FFF_FFFF || alphabet_len > stride {
                        bad("table size", format!("len {} stride {} alphabet {}", trans.len(), stride, alphabet_len));
                    }
                    for b in 0..=255u8 {
                        if d.verif_class(b) as usize >= stride {
                            bad("byte classes fit in a row", format!("byte {} class {}", b, d.verif_class(b)));
                        }
                    }
                    for (i, t) in trans.iter().enumerate() {
                        if !valid(t.as_usize()) {
                            bad("every table entry is a state id", format!("trans[{}] = {}", i, t.as_usize()));
                            break;
                        }
                        if i < stride && t.as_usize() != 0 {
                            bad("the dead state is absorbing", format!("trans[{}] = {}", i, t.as_usize()));
                        }
                    }
                    for s in &sp[2..] {
                        if !valid(s.as_usize()) {
                            bad("special ids are state ids", format!("{}", s.as_usize()));
                        }
                    }
                    if sp[1].as_usize() > sp[0].as_usize() {
                        bad("max_match_id <= max_special_id", format!("{} {}", sp[1].as_usize(), sp[0].as_usize()));
                    }
                    let mut s = 2 * stride;
                    while s <= sp[1].as_usize() {
                        if s < 2 * stride || s / stride - 2 >= nlists || d.verif_match_list(s / stride - 2).is_empty() {
                            bad("match states index non-empty match lists", format!("state {}", s));
                            break;
                        }
                        s += stride;
                    }
                    for i in 0..nlists {
                        if d.verif_match_list(i).iter().any(|p| p.as_usize() >= npat) {
                            bad("listed pattern ids are valid", format!("list {}", i));
                        }
                    }
                    rep.cases_n(trans.len(), trans.len());
                }
            }
        });
    }
    rep
}
