//! acv-bounded — bounded stand-ins for the contracts that the proved layer assumes of the real
//! builders (DESIGN.md 2.3).  Every sub-command prints one JSON object on the last stdout line:
//! {"check":..,"cases":..,"nontrivial":..,"bound":..,"rule":..,"failures":[{key,what,argv}],"samples":[..]}
mod ac;
mod eng;
mod gen;
mod guardc;
mod misc;
mod oracle;
mod packedc;
mod pc;
mod repr;
mod sem;
mod stream;

use std::collections::BTreeMap;
use std::sync::atomic::{AtomicUsize, Ordering};
use std::sync::Mutex;

pub struct Fail {
    pub key: String,
    pub what: String,
    pub argv: Vec<String>,
}

pub struct Report {
    pub check: String,
    pub cases: AtomicUsize,
    pub nontrivial: AtomicUsize,
    pub bound: String,
    pub rule: String,
    pub failures: Mutex<Vec<Fail>>,
    pub samples: Mutex<Vec<String>>,
    pub extra: Mutex<BTreeMap<String, usize>>,
}

pub const MAX_FAILS: usize = 12;

impl Report {
    pub fn new(check: &str, bound: String, rule: String) -> Report {
        Report {
            check: check.to_string(),
            cases: AtomicUsize::new(0),
            nontrivial: AtomicUsize::new(0),
            bound,
            rule,
            failures: Mutex::new(vec![]),
            samples: Mutex::new(vec![]),
            extra: Mutex::new(BTreeMap::new()),
        }
    }
    pub fn case(&self, nontrivial: bool) {
        self.cases.fetch_add(1, Ordering::Relaxed);
        if nontrivial {
            self.nontrivial.fetch_add(1, Ordering::Relaxed);
        }
    }
    pub fn cases_n(&self, n: usize, nontrivial: usize) {
        self.cases.fetch_add(n, Ordering::Relaxed);
        self.nontrivial.fetch_add(nontrivial, Ordering::Relaxed);
    }
    pub fn fail(&self, f: Fail) {
        let mut v = self.failures.lock().unwrap();
        if v.len() < MAX_FAILS && !v.iter().any(|x| x.key == f.key) {
            v.push(f);
        }
    }
    pub fn full(&self) -> bool {
        self.failures.lock().unwrap().len() >= MAX_FAILS
    }
    pub fn sample(&self, s: String) {
        let mut v = self.samples.lock().unwrap();
        if v.len() < 8 {
            v.push(s);
        }
    }
    pub fn count(&self, k: &str, n: usize) {
        *self.extra.lock().unwrap().entry(k.to_string()).or_insert(0) += n;
    }
    pub fn print(&self) {
        let esc = |s: &str| s.replace('\\', "\\\\").replace('"', "\\\"").replace('\n', "\\n");
        let fails: Vec<String> = self
            .failures
            .lock()
            .unwrap()
            .iter()
            .map(|f| {
                let argv: Vec<String> = f.argv.iter().map(|a| format!("\"{}\"", esc(a))).collect();
                format!("{{\"key\":\"{}\",\"what\":\"{}\",\"argv\":[{}]}}", esc(&f.key), esc(&f.what), argv.join(","))
            })
            .collect();
        let samples: Vec<String> = self.samples.lock().unwrap().iter().map(|s| format!("\"{}\"", esc(s))).collect();
        let extra: Vec<String> = self.extra.lock().unwrap().iter().map(|(k, v)| format!("\"{}\":{}", esc(k), v)).collect();
        println!(
            "{{\"check\":\"{}\",\"cases\":{},\"nontrivial\":{},\"bound\":\"{}\",\"rule\":\"{}\",\"failures\":[{}],\"samples\":[{}],\"extra\":{{{}}}}}",
            esc(&self.check),
            self.cases.load(Ordering::Relaxed),
            self.nontrivial.load(Ordering::Relaxed),
            esc(&self.bound),
            esc(&self.rule),
            fails.join(","),
            samples.join(","),
            extra.join(",")
        );
    }
}

pub struct Args {
    pub m: BTreeMap<String, String>,
}
impl Args {
    pub fn get(&self, k: &str, d: &str) -> String {
        self.m.get(k).cloned().unwrap_or(d.to_string())
    }
    pub fn num(&self, k: &str, d: usize) -> usize {
        self.m.get(k).map(|v| v.parse().unwrap()).unwrap_or(d)
    }
    pub fn has(&self, k: &str) -> bool {
        self.m.contains_key(k)
    }
    pub fn thorough(&self) -> bool {
        self.get("tier", "quick") == "thorough"
    }
}

/// add the counts and failures of a child process' report (its last stdout line) to `rep`
pub fn forward_child(rep: &Report, stdout: &str) {
    if let Some(line) = stdout.lines().filter(|l| l.starts_with('{')).last() {
        let num = |key: &str| -> usize {
            line.split(&format!("\"{}\":", key)).nth(1).and_then(|x| x.split(|c: char| !c.is_ascii_digit()).next()).and_then(|x| x.parse().ok()).unwrap_or(0)
        };
        rep.cases_n(num("cases"), num("nontrivial"));
        if let Some(fs) = line.split("\"failures\":[").nth(1) {
            let fs = fs.split("],\"samples\"").next().unwrap_or("");
            for obj in fs.split("{\"key\":\"").skip(1) {
                let key = obj.split("\",\"what\":\"").next().unwrap_or("").to_string();
                let what = obj.split("\",\"what\":\"").nth(1).and_then(|x| x.split("\",\"argv\":[").next()).unwrap_or("").replace("\\\\", "\\").replace("\\\"", "\"");
                let argv: Vec<String> = obj.split("\"argv\":[").nth(1).and_then(|x| x.split(']').next()).unwrap_or("").split(',').map(|a| a.trim_matches('"').to_string()).filter(|a| !a.is_empty()).collect();
                rep.fail(Fail { key, what, argv });
            }
        }
    }
}

/// run `f` over items on all cores
pub fn par_for<T: Sync, F: Fn(&T) + Sync>(items: &[T], f: F) {
    let n = std::thread::available_parallelism().map(|x| x.get()).unwrap_or(4).min(16);
    let next = AtomicUsize::new(0);
    std::thread::scope(|s| {
        for _ in 0..n {
            s.spawn(|| loop {
                let i = next.fetch_add(1, Ordering::Relaxed);
                if i >= items.len() {
                    break;
                }
                f(&items[i]);
            });
        }
    });
}

fn main() {
    let argv: Vec<String> = std::env::args().collect();
    if argv.len() < 2 {
        eprintln!("usage: acv-bounded <check> [--key value]...");
        std::process::exit(2);
    }
    let mut m = BTreeMap::new();
    let mut i = 2;
    while i < argv.len() {
        let k = argv[i].trim_start_matches("--").to_string();
        let v = if i + 1 < argv.len() && !argv[i + 1].starts_with("--") {
            i += 1;
            argv[i].clone()
        } else {
            "1".to_string()
        };
        m.insert(k, v);
        i += 1;
    }
    let args = Args { m };
    // a panic inside the library under test is a finding of the calling check, not a crash of
    // the harness: checks use catch_unwind; silence the default hook's noise
    std::panic::set_hook(Box::new(|_| {}));
    let rep = match argv[1].as_str() {
        "sem" => sem::run(&args),
        "sem-replay" => sem::replay(&args),
        "ac" => ac::run(&args),
        "bisim" => ac::bisim(&args),
        "nested" => ac::nested(&args),
        "pc" => pc::run(&args),
        "packed" => packedc::run(&args),
        "stream" => stream::run(&args),
        "replace" => misc::replace(&args),
        "cfgprod" => misc::cfgprod(&args),
        "meta" => misc::meta(&args),
        "purity" => misc::purity(&args),
        "guard" => guardc::run(&args),
        "bigkinds" => misc::bigkinds(&args),
        "scaling" => misc::scaling(&args),
        "faildepth" => ac::faildepth(&args),
        "repr" => ac::repr(&args),
        "repr-nnfa" => repr::nnfa(&args),
        "repr-cnfa" => repr::cnfa(&args),
        x => {
            eprintln!("unknown check {}", x);
            std::process::exit(2);
        }
    };
    rep.print();
}
