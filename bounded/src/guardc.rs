//! B-guard (C15, C17): searches of haystacks that lie flush against an unreadable page, before
//! and after.  A read outside the haystack is a SIGSEGV of the child process that runs the
//! sweep (the parent reports it with the group of cases the child was in); the result must also
//! equal the result on an ordinary heap copy of the same bytes (same searcher): a search is a
//! function of the bytes, not of their address — as the haystack length varies the flush-right
//! placement walks through every address residue modulo the vector widths.
use crate::gen::{show, show_pats, Rng};
use crate::oracle::{Kind, M};
use crate::packedc::{build, Var};
use crate::{Args, Fail, Report};
use std::io::Write;
use std::panic::{catch_unwind, AssertUnwindSafe};

extern "C" {
    fn mmap(addr: *mut u8, len: usize, prot: i32, flags: i32, fd: i32, off: i64) -> *mut u8;
    fn mprotect(addr: *mut u8, len: usize, prot: i32) -> i32;
}
const PAGE: usize = 4096;
const DATA_PAGES: usize = 4;

/// [unreadable page][DATA_PAGES readable pages][unreadable page]
pub struct Guarded {
    base: *mut u8,
}
impl Guarded {
    pub fn new() -> Guarded {
        unsafe {
            let total = (DATA_PAGES + 2) * PAGE;
            let base = mmap(std::ptr::null_mut(), total, 3, 0x22, -1, 0);
            if base.is_null() || base as isize == -1 || mprotect(base, PAGE, 0) != 0 || mprotect(base.add((DATA_PAGES + 1) * PAGE), PAGE, 0) != 0 {
                // the environment refuses the mapping: nothing can be decided here (never an alarm)
                eprintln!("ENV cannot map guard pages");
                std::process::exit(3);
            }
            Guarded { base }
        }
    }
    /// a copy of `h` whose last byte is the last readable byte
    pub fn flush_right(&mut self, h: &[u8]) -> &[u8] {
        assert!(h.len() <= DATA_PAGES * PAGE);
        unsafe {
            let end = self.base.add((DATA_PAGES + 1) * PAGE);
            let p = end.sub(h.len());
            std::ptr::copy_nonoverlapping(h.as_ptr(), p, h.len());
            std::slice::from_raw_parts(p, h.len())
        }
    }
    /// a copy of `h` whose first byte is the first readable byte
    pub fn flush_left(&mut self, h: &[u8]) -> &[u8] {
        assert!(h.len() <= DATA_PAGES * PAGE);
        unsafe {
            let p = self.base.add(PAGE);
            std::ptr::copy_nonoverlapping(h.as_ptr(), p, h.len());
            std::slice::from_raw_parts(p, h.len())
        }
    }
}

fn cv(m: aho_corasick::Match) -> M {
    M { pid: m.pattern().as_usize(), start: m.start(), end: m.end() }
}

const VARS: [Var; 5] = [Var::Default, Var::Teddy, Var::TeddySlim128, Var::TeddySlim256, Var::TeddyFat];

pub fn lists(thorough: bool, seed: usize) -> Vec<Vec<Vec<u8>>> {
    let mut v: Vec<Vec<Vec<u8>>> = vec![
        // one-byte minimum (1-byte fingerprints), 2, 3, 4 and longer
        vec![b"q".to_vec(), b"w".to_vec(), b"e".to_vec(), b"r".to_vec(), b"t".to_vec()],
        vec![b"a".to_vec(), b"bcd".to_vec()],
        vec![b"ab".to_vec(), b"cde".to_vec(), b"Xy".to_vec()],
        vec![b"abc".to_vec(), b"Key".to_vec(), b"x-y".to_vec(), b"a1b".to_vec()],
        vec![b"abs".to_vec(), b"abcd".to_vec()],
        vec![b"abcd".to_vec(), b"abs".to_vec(), b"hello".to_vec(), b"world".to_vec(), b"jump".to_vec()],
        vec![b"needle".to_vec(), b"haystack".to_vec(), b"Nee".to_vec(), b"stacks".to_vec()],
        vec![b"\xE2\x82\xAC".to_vec(), b"\xC3\xA9t\xC3\xA9".to_vec(), b"\xFF\x00\xFF".to_vec()],
    ];
    let all = crate::packedc::lists(thorough, seed);
    let step = if thorough { 1 } else { 4 };
    v.extend(all.into_iter().step_by(step).filter(|l| l.iter().all(|p| p.len() <= 130)));
    v
}

/// the lengths swept: every short length (every residue modulo 64) and a band of long ones
/// (many vector iterations, unrolled / skip loops)
fn lengths(thorough: bool) -> Vec<usize> {
    let mut v: Vec<usize> = (0..=(if thorough { 300 } else { 140 })).collect();
    v.extend(if thorough { 480..=1100 } else { 500..=640 });
    // around and beyond a page (code that treats "big" haystacks differently)
    v.extend([4095usize, 4096, 4097, 5000, 8191, 8192, 8193, 12345, 16384]);
    v
}

fn child(args: &Args) -> Report {
    let thorough = args.thorough();
    let seed = args.num("seed", 0);
    let rep = Report::new("guard[child]", String::new(), String::new());
    let ls = lists(thorough, seed);
    let (k, n) = (args.num("shard", 0), args.num("shards", 1));
    let only = if args.has("only-list") { Some(args.num("only-list", 0)) } else { None };
    let mut g = Guarded::new();
    let err = std::io::stderr();
    for (li, pats) in ls.iter().enumerate() {
        if li % n != k || only.map_or(false, |o| o != li) {
            continue;
        }
        let filler = match (0..=255u8).rev().find(|b| !pats.iter().any(|p| p.contains(b))) {
            Some(f) => f,
            None => continue,
        };
        let mut rng = Rng(li as u64 * 977 + seed as u64);
        // searchers: every packed variant x both match kinds, and the front end (prefilter on)
        let mut searchers: Vec<(String, Box<dyn Fn(&[u8]) -> Option<M>>)> = vec![];
        for kind in [Kind::LF, Kind::LL] {
            for var in VARS {
                if let Ok(Some(s)) = catch_unwind(AssertUnwindSafe(|| build(var, kind, pats))) {
                    searchers.push((format!("packed {:?} {}", var, kind.name()), Box::new(move |h: &[u8]| s.find(h).map(cv))));
                }
            }
        }
        for kind in [None, Some(aho_corasick::AhoCorasickKind::DFA)] {
            for mk in [aho_corasick::MatchKind::LeftmostFirst, aho_corasick::MatchKind::Standard] {
                if let Ok(ac) = aho_corasick::AhoCorasickBuilder::new().kind(kind).match_kind(mk).build(pats) {
                    searchers.push((format!("AhoCorasick kind {:?} {:?}", kind, mk), Box::new(move |h: &[u8]| ac.find(h).map(cv))));
                }
            }
        }
        for (name, f) in &searchers {
            let _ = writeln!(err.lock(), "CASE list #{} {} searcher {}", li, show_pats(&pats[..pats.len().min(4)]), name);
            for &l in &lengths(thorough) {
                let mut hays: Vec<Vec<u8>> = vec![vec![filler; l]];
                let p = &pats[rng.below(pats.len())];
                if !p.is_empty() && p.len() <= l {
                    // an occurrence at the very end, and one a vector (or one byte more / less) after the start
                    let mut h = vec![filler; l];
                    h[l - p.len()..].copy_from_slice(p);
                    hays.push(h);
                    for pos in [15usize, 16, 17, 31, 32, 33, 63, 64] {
                        if pos + p.len() <= l && (l < 200 || pos >= 31) {
                            let mut h = vec![filler; l];
                            h[pos..pos + p.len()].copy_from_slice(p);
                            hays.push(h);
                        }
                    }
                    // a cut-off occurrence at the end (every proper prefix length would be too many: one)
                    if p.len() >= 2 {
                        let cut = 1 + rng.below(p.len() - 1);
                        if cut <= l {
                            let mut h = vec![filler; l];
                            h[l - cut..].copy_from_slice(&p[..cut]);
                            hays.push(h);
                        }
                    }
                }
                for h in &hays {
                    let want = match catch_unwind(AssertUnwindSafe(|| f(h))) {
                        Ok(w) => w,
                        Err(_) => {
                            rep.fail(Fail { key: format!("guard:panic:{}:{}", li, name), what: format!("{} for {}: search of {} bytes '{}' panicked", name, show_pats(&pats[..pats.len().min(4)]), h.len(), show(&h[..h.len().min(90)])), argv: vec!["guard".into(), "--only-list".into(), li.to_string()] });
                            continue;
                        }
                    };
                    for right in [true, false] {
                        rep.case(want.is_some());
                        let view = if right { g.flush_right(h) } else { g.flush_left(h) };
                        let got = match catch_unwind(AssertUnwindSafe(|| f(view))) {
                            Ok(g) => g,
                            Err(_) => {
                                rep.fail(Fail { key: format!("guard:panic:{}:{}", li, name), what: format!("{} for {}: search of {} bytes '{}' placed flush {} an unreadable page panicked", name, show_pats(&pats[..pats.len().min(4)]), h.len(), show(&h[..h.len().min(90)]), if right { "before" } else { "after" }), argv: vec!["guard".into(), "--only-list".into(), li.to_string()] });
                                continue;
                            }
                        };
                        if got != want {
                            rep.fail(Fail {
                                key: format!("guard:reloc:{}:{}", li, name),
                                what: format!("{} for {}: the same {} bytes '{}' give {:?} in an ordinary buffer and {:?} flush {} an unreadable page", name, show_pats(&pats[..pats.len().min(4)]), h.len(), show(&h[..h.len().min(90)]), want, got, if right { "before" } else { "after" }),
                                argv: vec!["guard".into(), "--only-list".into(), li.to_string()],
                            });
                        }
                    }
                }
            }
        }
    }
    rep
}

pub fn run(args: &Args) -> Report {
    if args.has("child") {
        return child(args);
    }
    let thorough = args.thorough();
    let seed = args.num("seed", 0);
    let rep = Report::new(
        "guard",
        format!("{} pattern lists x packed variants {:?} x both leftmost kinds + the front end (automatic kind and DFA; leftmost-first and standard, prefilter on); haystack lengths {:?}.. (filler, an occurrence at the end, a vector after the start, a cut-off occurrence at the end), each placed flush before and flush after an unreadable page", lists(thorough, seed).len(), VARS, &lengths(thorough)[..3]),
        "case = (pattern list, searcher, haystack, placement): no read outside the haystack (the child process would die of SIGSEGV) and the same result as in an ordinary heap buffer".into(),
    );
    let exe = std::env::current_exe().expect("current_exe");
    let shards = if args.has("only-list") { 1 } else { 12 };
    let mut kids = vec![];
    for k in 0..shards {
        let mut c = std::process::Command::new(&exe);
        c.arg("guard").arg("--child").arg("1").arg("--shard").arg(k.to_string()).arg("--shards").arg(shards.to_string());
        c.arg("--tier").arg(args.get("tier", "quick")).arg("--seed").arg(seed.to_string());
        if args.has("only-list") {
            c.arg("--only-list").arg(args.get("only-list", "0"));
        }
        c.stdout(std::process::Stdio::piped()).stderr(std::process::Stdio::piped());
        kids.push((k, c.spawn().expect("spawn")));
    }
    for (k, kid) in kids {
        let out = kid.wait_with_output().expect("wait");
        let stderr = String::from_utf8_lossy(&out.stderr).to_string();
        let last_case = stderr.lines().filter(|l| l.starts_with("CASE ")).last().unwrap_or("CASE (none)").to_string();
        if !out.status.success() {
            use std::os::unix::process::ExitStatusExt;
            // only a death by signal is a finding; anything else is a harness / environment problem
            if out.status.signal().is_none() {
                eprintln!("guard: sweep process (shard {}) ended with {:?}: {}", k, out.status.code(), stderr.lines().last().unwrap_or(""));
                std::process::exit(2);
            }
            let li = last_case.split('#').nth(1).and_then(|x| x.split(' ').next()).unwrap_or("0").to_string();
            let how = match out.status.signal() {
                Some(11) => "SIGSEGV (a read outside the haystack hit the unreadable page)".to_string(),
                Some(7) => "SIGBUS".to_string(),
                Some(s) => format!("signal {}", s),
                None => format!("exit status {:?} ({})", out.status.code(), stderr.lines().filter(|l| l.contains("panicked")).last().unwrap_or("")),
            };
            rep.case(true);
            rep.fail(Fail {
                key: format!("guard:died:{}", last_case),
                what: format!("the sweep process (shard {}) died of {} while in {}", k, how, &last_case[5..]),
                argv: vec!["guard".into(), "--only-list".into(), li],
            });
            continue;
        }
        crate::forward_child(&rep, &String::from_utf8_lossy(&out.stdout));
    }
    rep.sample("e.g. 544 filler bytes flush before an unreadable page, searched for five one-byte patterns (1-byte Teddy)".into());
    rep
}
