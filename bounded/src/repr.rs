//! Representation invariants of the two NFAs, executed on real builder output through hook H1:
//! `nnfa_wf` (contracts/units/u3_nnfa.rs.tpl) and `cnfa_wf` (contracts/units/u3_cnfa.rs.tpl) are
//! the hypotheses under which the Verus units prove the low-level accessors; the builders that
//! establish them are out of reach of the verifiers, so each clause is checked here on every
//! state x byte of every NFA of the stated families.
use crate::ac::wide_lists;
use crate::gen::show_pats;
use crate::oracle::Kind;
use crate::sem::family;
use crate::{par_for, Args, Fail, Report};
use aho_corasick::nfa::{contiguous, noncontiguous};
use aho_corasick::automaton::StateID;
use std::collections::VecDeque;

fn sid(x: usize) -> StateID {
    StateID::new(x).unwrap()
}

/// `chain_lookup` of u3_nnfa, literally
fn chain_lookup(n: &noncontiguous::NFA, mut link: usize, byte: u8, sparse_len: usize) -> usize {
    let mut fuel = sparse_len;
    loop {
        if fuel == 0 || link == 0 || link >= sparse_len {
            return 1;
        }
        let (b, next, l) = n.verif_sparse(link);
        if byte <= b {
            return if byte == b { next.as_usize() } else { 1 };
        }
        link = l.as_usize();
        fuel -= 1;
    }
}

pub fn lists_for(fname: &str, thorough: bool, seed: usize) -> Vec<Vec<Vec<u8>>> {
    let mut lists = if fname == "wide" { wide_lists(thorough, seed) } else { family(fname, thorough, seed).lists };
    if fname == "small" {
        lists.push(vec![]);
        lists.push(vec![vec![]]);
    }
    lists
}

pub fn nnfa(args: &Args) -> Report {
    let thorough = args.thorough();
    let seed = args.num("seed", 0);
    let rep = Report::new(
        "repr[nnfa]",
        format!("pattern families small,abc,ci,bytes,wide,deep (tier {}) x 3 match kinds x dense depth 0/2/default x ci: every clause of nnfa_wf (contracts/units/u3_nnfa.rs.tpl) on every state x 256 bytes, with rank = breadth-first depth from the unanchored start (anchored start: 1, dead: 0)", args.get("tier", "quick")),
        "case = one (state, byte) of one real noncontiguous NFA".into(),
    );
    for fname in ["small", "abc", "ci", "bytes", "wide", "deep"] {
        let lists = lists_for(fname, thorough, seed);
        par_for(&lists, |pats| {
            for kind in [Kind::Std, Kind::LF, Kind::LL] {
                for (dd, ci) in [(None, false), (Some(0usize), false), (Some(2), fname == "ci"), (Some(100), true)] {
                    let mut b = noncontiguous::Builder::new();
                    b.match_kind(crate::eng::mk_real(kind)).ascii_case_insensitive(ci);
                    if let Some(d) = dd {
                        b.dense_depth(d);
                    }
                    let n = match b.build(pats) {
                        Ok(n) => n,
                        Err(_) => continue,
                    };
                    check_nnfa(&rep, &n, pats, kind, &format!("dense_depth {:?}, ci {}", dd, ci));
                    if rep.full() {
                        return;
                    }
                }
            }
        });
    }
    rep
}

fn check_nnfa(rep: &Report, n: &noncontiguous::NFA, pats: &[Vec<u8>], kind: Kind, how: &str) {
    let bad = |clause: &str, detail: String| {
        rep.fail(Fail {
            key: format!("repr:nnfa:{}:{}:{}", clause, kind.name(), show_pats(&pats[..pats.len().min(4)])),
            what: format!("nnfa_wf clause '{}' fails for {} (kind {}, {}): {}", clause, show_pats(&pats[..pats.len().min(4)]), kind.name(), how, detail),
            argv: vec!["repr-nnfa".into()],
        });
    };
    let nstates = n.verif_states_len();
    let [sparse_len, dense_len, _matches_len, _npat] = n.verif_dims();
    let sp = n.verif_special();
    let (ustart, astart) = (sp[2].as_usize(), sp[3].as_usize());
    if nstates < 2 || nstates > 0x7FFF_FFFF || sparse_len > 0x7FFF_FFFF || dense_len > 0x7FFF_FFFF {
        bad("table sizes", format!("{} {} {}", nstates, sparse_len, dense_len));
        return;
    }
    let alphabet_len = n.verif_class(255) as usize + 1;
    for b in 0..=255u8 {
        if n.verif_class(b) as usize >= alphabet_len {
            bad("byte classes below the alphabet length", format!("byte {}", b));
        }
    }
    let valid = |s: usize| s < nstates && s != 1;
    for s in [ustart, astart] {
        if !valid(s) || s == 0 {
            bad("start ids are state ids other than dead", format!("{}", s));
            return;
        }
    }
    if sp[1].as_usize() > sp[0].as_usize() {
        bad("max_match_id <= max_special_id", format!("{} {}", sp[1].as_usize(), sp[0].as_usize()));
    }
    // chains sorted strictly by byte; match links forward; listed ids valid; match states non-empty
    for i in 1..sparse_len {
        let (b, _, l) = n.verif_sparse(i);
        let l = l.as_usize();
        if l != 0 && (l >= sparse_len || n.verif_sparse(l).0 <= b) {
            bad("sparse chains are sorted strictly by byte", format!("sparse[{}] byte {} link {}", i, b, l));
        }
    }
    for i in 1.._matches_len {
        let (pid, l) = n.verif_match(i);
        let l = l.as_usize();
        if !(l == 0 || (i < l && l < _matches_len)) {
            bad("match links point forward", format!("matches[{}] link {}", i, l));
        }
        if pid.as_usize() >= _npat {
            bad("listed pattern ids are valid", format!("matches[{}] pid {}", i, pid.as_usize()));
        }
    }
    for s in 2..nstates {
        if s <= sp[1].as_usize() {
            let h = n.verif_state(sid(s))[2].as_usize();
            if h == 0 || h >= _matches_len {
                bad("match states have a non-empty match list", format!("state {}", s));
            }
        }
    }
    let lookup = |s: usize, b: u8| chain_lookup(n, n.verif_state(sid(s))[0].as_usize(), b, sparse_len);
    // rank: BFS depth from the unanchored start over defined transitions; dead 0, anchored start 1
    let big = usize::MAX / 2;
    let mut rank = vec![big; nstates];
    rank[0] = 0;
    rank[ustart] = 0;
    let mut q = VecDeque::new();
    q.push_back(ustart);
    while let Some(s) = q.pop_front() {
        for b in 0..=255u8 {
            let t = lookup(s, b);
            if t != 1 && t < nstates && rank[t] == big {
                rank[t] = rank[s] + 1;
                q.push_back(t);
            }
        }
    }
    if rank[astart] == big {
        rank[astart] = 1;
    }
    let mut cases = 0usize;
    for s in 0..nstates {
        if !valid(s) {
            continue;
        }
        if rank[s] == big {
            // not reachable from a start state by defined transitions: never handed out
            rep.count("unreachable-states", 1);
            continue;
        }
        let st = n.verif_state(sid(s));
        let dense = st[1].as_usize();
        if dense != 0 && dense + alphabet_len > dense_len {
            bad("a dense row lies inside the dense table", format!("state {} dense {}", s, dense));
            continue;
        }
        for b in 0..=255u8 {
            cases += 1;
            let t = lookup(s, b);
            if dense != 0 {
                let d = n.verif_dense(dense + n.verif_class(b) as usize).as_usize();
                if d != t {
                    bad("a dense row agrees with the sparse chain", format!("state {} byte {}: dense {} sparse {}", s, b, d, t));
                }
            }
            if t != 1 {
                if !valid(t) {
                    bad("a defined transition leads to a state id", format!("state {} byte {} -> {}", s, b, t));
                } else if rank[t] > rank[s] + 1 {
                    bad("a defined transition raises the rank by at most one", format!("state {} (rank {}) byte {} -> {} (rank {})", s, rank[s], b, t, rank[t]));
                }
            } else {
                let f = st[3].as_usize();
                if !valid(f) {
                    bad("a state with an undefined transition has a failure link to a state id", format!("state {} fail {}", s, f));
                } else if rank[f] >= rank[s] {
                    bad("the failure link of a state with an undefined transition has smaller rank", format!("state {} (rank {}) fail {} (rank {})", s, rank[s], f, rank[f]));
                }
            }
            if s == 0 && t != 0 {
                bad("the dead state is absorbing", format!("byte {} -> {}", b, t));
            }
        }
    }
    rep.cases_n(cases, cases);
}

// ---------------------------------------------------------------------------------------------
// contiguous NFA

pub const KIND_DENSE: u32 = 0xFF;
pub const KIND_ONE: u32 = 0xFE;

fn u32_len(ntrans: usize) -> usize {
    (ntrans + 3) / 4
}

/// layout of the state at offset `o`: (length in u32s up to and excluding the match section,
/// number of transitions), None when it does not fit
fn trans_layout(repr: &[u32], o: usize, alphabet_len: usize) -> Option<(usize, usize)> {
    if o + 2 > repr.len() {
        return None;
    }
    let kind = repr[o] & 0xFF;
    let (len, nt) = if kind == KIND_DENSE {
        (2 + alphabet_len, alphabet_len)
    } else if kind == KIND_ONE {
        (3, 1)
    } else {
        let nt = kind as usize;
        (2 + u32_len(nt) + nt, nt)
    };
    if o + len > repr.len() {
        None
    } else {
        Some((len, nt))
    }
}

/// the spec-level lookup `c_lookup` of u3_cnfa: the transition of the state at `o` on class `c`,
/// FAIL (1) when undefined
fn c_lookup(repr: &[u32], o: usize, c: u8, _alphabet_len: usize) -> u32 {
    let kind = repr[o] & 0xFF;
    if kind == KIND_DENSE {
        repr[o + 2 + c as usize]
    } else if kind == KIND_ONE {
        if ((repr[o] >> 8) & 0xFF) as u8 == c {
            repr[o + 2]
        } else {
            1
        }
    } else {
        let nt = kind as usize;
        let cl = u32_len(nt);
        // the first of the 4*cl class slots (padding included) that holds c
        for k in 0..4 * cl {
            let chunk = repr[o + 2 + k / 4];
            if chunk.to_le_bytes()[k % 4] == c {
                return repr[o + 2 + cl + k];
            }
        }
        1
    }
}

pub fn cnfa(args: &Args) -> Report {
    let thorough = args.thorough();
    let seed = args.num("seed", 0);
    let rep = Report::new(
        "repr[cnfa]",
        format!("pattern families small,abc,ci,bytes,wide,deep (tier {}) x 3 match kinds x dense depth 0/2/default x byte classes on/off x ci: every clause of cnfa_wf (contracts/units/u3_cnfa.rs.tpl) on every state x every class of the real contiguous NFA, states found by sequential decoding, rank = breadth-first depth from the unanchored start (anchored start: 1, dead: 0)", args.get("tier", "quick")),
        "case = one (state, class) of one real contiguous NFA".into(),
    );
    for fname in ["small", "abc", "ci", "bytes", "wide", "deep"] {
        let lists = lists_for(fname, thorough, seed);
        par_for(&lists, |pats| {
            for kind in [Kind::Std, Kind::LF, Kind::LL] {
                for (dd, bc, ci) in [(None, true, false), (Some(0usize), false, false), (Some(2), true, fname == "ci"), (Some(100), true, true)] {
                    let mut b = contiguous::Builder::new();
                    b.match_kind(crate::eng::mk_real(kind)).ascii_case_insensitive(ci).byte_classes(bc);
                    if let Some(d) = dd {
                        b.dense_depth(d);
                    }
                    let n = match b.build(pats) {
                        Ok(n) => n,
                        Err(_) => continue,
                    };
                    check_cnfa(&rep, &n, pats, kind, &format!("dense_depth {:?}, byte classes {}, ci {}", dd, bc, ci));
                    if rep.full() {
                        return;
                    }
                }
            }
        });
    }
    rep
}

fn check_cnfa(rep: &Report, n: &contiguous::NFA, pats: &[Vec<u8>], kind: Kind, how: &str) {
    let bad = |clause: &str, detail: String| {
        rep.fail(Fail {
            key: format!("repr:cnfa:{}:{}:{}", clause, kind.name(), show_pats(&pats[..pats.len().min(4)])),
            what: format!("cnfa_wf clause '{}' fails for {} (kind {}, {}): {}", clause, show_pats(&pats[..pats.len().min(4)]), kind.name(), how, detail),
            argv: vec!["repr-cnfa".into()],
        });
    };
    let repr = n.verif_repr();
    let [alphabet_len, state_len, npat] = n.verif_dims();
    let sp = n.verif_special();
    let (max_match, ustart, astart) = (sp[1].as_usize(), sp[2].as_usize(), sp[3].as_usize());
    if repr.len() > 0x7FFF_FFFF || alphabet_len == 0 || alphabet_len > 256 {
        bad("table sizes", format!("{} {}", repr.len(), alphabet_len));
        return;
    }
    for b in 0..=255u8 {
        if n.verif_class(b) as usize >= alphabet_len {
            bad("byte classes below the alphabet length", format!("byte {}", b));
            return;
        }
    }
    if sp[1].as_usize() > sp[0].as_usize() {
        bad("max_match_id <= max_special_id", format!("{} {}", sp[1].as_usize(), sp[0].as_usize()));
    }
    // the set of state offsets, by sequential decoding (what the Debug impl does)
    let mut offs: Vec<usize> = vec![];
    let mut o = 0usize;
    while o < repr.len() {
        let (tl, _) = match trans_layout(repr, o, alphabet_len) {
            Some(x) => x,
            None => {
                bad("every state lies inside repr", format!("state at {}", o));
                return;
            }
        };
        let is_match = o != 0 && o <= max_match;
        let mut len = tl;
        if is_match {
            if (repr[o] & 0xFF) == KIND_ONE {
                bad("a one-transition state is never a match state", format!("state at {}", o));
                return;
            }
            if o + tl >= repr.len() {
                bad("every state lies inside repr", format!("match section of state at {}", o));
                return;
            }
            let packed = repr[o + tl];
            if packed & (1 << 31) != 0 {
                len += 1;
                if (packed & !(1 << 31)) as usize >= npat {
                    bad("listed pattern ids are valid", format!("state {} pid {}", o, packed & !(1 << 31)));
                }
            } else {
                let k = packed as usize;
                if k == 0 {
                    bad("match lists are non-empty", format!("state {}", o));
                }
                if o + tl + 1 + k > repr.len() {
                    bad("every state lies inside repr", format!("match list of state at {}", o));
                    return;
                }
                for i in 0..k {
                    if repr[o + tl + 1 + i] as usize >= npat {
                        bad("listed pattern ids are valid", format!("state {} pid {}", o, repr[o + tl + 1 + i]));
                    }
                }
                len += 1 + k;
            }
        }
        offs.push(o);
        o += len;
    }
    let _ = state_len; // counts the FAIL sentinel of the noncontiguous NFA too, which is not encoded
    let mut is_state = vec![false; repr.len() + 1];
    for &o in &offs {
        is_state[o] = true;
    }
    let valid = |s: usize| s < repr.len() && is_state[s];
    for s in [ustart, astart] {
        if !valid(s) || s == 0 {
            bad("start ids are state ids other than dead", format!("{}", s));
            return;
        }
    }
    // rank
    let big = usize::MAX / 2;
    let mut rank = vec![big; repr.len()];
    rank[0] = 0;
    rank[ustart] = 0;
    let mut q = VecDeque::new();
    q.push_back(ustart);
    while let Some(s) = q.pop_front() {
        for c in 0..alphabet_len {
            let t = c_lookup(repr, s, c as u8, alphabet_len) as usize;
            if t != 1 && valid(t) && rank[t] == big {
                rank[t] = rank[s] + 1;
                q.push_back(t);
            }
        }
    }
    if rank[astart] == big {
        rank[astart] = 1;
    }
    let mut cases = 0usize;
    for &s in &offs {
        if rank[s] == big {
            rep.count("unreachable-states", 1);
            continue;
        }
        let kindb = repr[s] & 0xFF;
        if kindb != KIND_DENSE && kindb != KIND_ONE && kindb as usize > 127 {
            bad("a sparse state has at most 127 transitions", format!("state {} kind {}", s, kindb));
        }
        for c in 0..alphabet_len {
            cases += 1;
            let t = c_lookup(repr, s, c as u8, alphabet_len) as usize;
            if t != 1 {
                if !valid(t) {
                    bad("a defined transition leads to a state id", format!("state {} class {} -> {}", s, c, t));
                } else if rank[t] > rank[s] + 1 {
                    bad("a defined transition raises the rank by at most one", format!("state {} (rank {}) class {} -> {} (rank {})", s, rank[s], c, t, rank[t]));
                }
            } else {
                let f = repr[s + 1] as usize;
                if !valid(f) {
                    bad("a state with an undefined transition has a failure link to a state id", format!("state {} fail {}", s, f));
                } else if rank[f] >= rank[s] {
                    bad("the failure link of a state with an undefined transition has smaller rank", format!("state {} (rank {}) fail {} (rank {})", s, rank[s], f, rank[f]));
                }
            }
            if s == 0 && t != 0 {
                bad("the dead state is absorbing", format!("class {} -> {}", c, t));
            }
        }
    }
    rep.cases_n(cases, cases);
}
