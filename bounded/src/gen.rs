//! Enumeration of the bounded input spaces (DESIGN.md 2.3).  Everything is deterministic; the
//! seed only rotates which sampled sub-space a quick run visits.

/// all strings over `alpha` of length lo..=hi, by length then lexicographically
pub fn strings(alpha: &[u8], lo: usize, hi: usize) -> Vec<Vec<u8>> {
    let mut out = vec![];
    for len in lo..=hi {
        let total = alpha.len().pow(len as u32);
        for i in 0..total {
            let mut x = i;
            let mut s = vec![0u8; len];
            for k in (0..len).rev() {
                s[k] = alpha[x % alpha.len()];
                x /= alpha.len();
            }
            out.push(s);
        }
    }
    out
}

/// all ordered lists (with repetition) of 1..=n strings drawn from `pool`; lists of the maximal
/// size are thinned to every `stride`-th one starting at `offset` (stride 1 = all).
pub fn lists(pool: &[Vec<u8>], n: usize, stride: usize, offset: usize) -> Vec<Vec<Vec<u8>>> {
    let mut out = vec![];
    for size in 1..=n {
        let total = pool.len().pow(size as u32);
        let (st, off) = if size == n && size > 2 { (stride.max(1), offset % stride.max(1)) } else { (1, 0) };
        let mut i = off;
        while i < total {
            let mut x = i;
            let mut l = Vec::with_capacity(size);
            for _ in 0..size {
                l.push(pool[x % pool.len()].clone());
                x /= pool.len();
            }
            l.reverse();
            out.push(l);
            i += st;
        }
    }
    out
}

pub struct Rng(pub u64);
impl Rng {
    pub fn next(&mut self) -> u64 {
        // splitmix64
        self.0 = self.0.wrapping_add(0x9E3779B97F4A7C15);
        let mut z = self.0;
        z = (z ^ (z >> 30)).wrapping_mul(0xBF58476D1CE4E5B9);
        z = (z ^ (z >> 27)).wrapping_mul(0x94D049BB133111EB);
        z ^ (z >> 31)
    }
    pub fn below(&mut self, n: usize) -> usize {
        (self.next() % (n as u64)) as usize
    }
    pub fn bytes(&mut self, alpha: &[u8], len: usize) -> Vec<u8> {
        (0..len).map(|_| alpha[self.below(alpha.len())]).collect()
    }
}

pub fn hex(b: &[u8]) -> String {
    b.iter().map(|x| format!("{:02x}", x)).collect()
}
pub fn unhex(s: &str) -> Vec<u8> {
    (0..s.len() / 2).map(|i| u8::from_str_radix(&s[2 * i..2 * i + 2], 16).unwrap()).collect()
}
/// printable form for reports
pub fn show(b: &[u8]) -> String {
    let mut s = String::new();
    for &c in b {
        if (0x20..0x7f).contains(&c) && c != b'"' && c != b'\\' {
            s.push(c as char);
        } else {
            s.push_str(&format!("\\\\x{:02x}", c));
        }
    }
    s
}
pub fn show_pats(p: &[Vec<u8>]) -> String {
    let v: Vec<String> = p.iter().map(|x| format!("'{}'", show(x))).collect();
    format!("[{}]", v.join(","))
}
pub fn enc_pats(p: &[Vec<u8>]) -> String {
    let v: Vec<String> = p.iter().map(|x| hex(x)).collect();
    v.join(",")
}
pub fn dec_pats(s: &str) -> Vec<Vec<u8>> {
    if s == "-" {
        return vec![];
    }
    s.split(',').map(unhex).collect()
}
