//! Enumeration of the bounded input spaces (DESIGN.md 2.3).  Everything is deterministic; the
//! seed only rotates which sampled sub-space a quick run visits.

/// all strings over `alpha` of length lo..=hi, by length then lexicographically
pub fn strings(alpha: &[u8], lo: usize, hi: usize) -> Vec<Vec<u8>> {
    let mut out = vec![];
    for len in lo..=hi {
        let total = alpha.len().pow(len as u32);
        for i in 0..total {
            let mut x = i;
            let mut s = vec![0u8; len];
            for k in (0..len).rev() {
                s[k] = alpha[x % alpha.len()];
                x /= alpha.len();
            }
            out.push(s);
        }
    }
    out
}

/// all ordered lists (with repetition) of 1..=n strings drawn from `pool`; lists of the maximal
/// size are thinned to every `stride`-th one starting at `offset` (stride 1 = all).
pub fn lists(pool: &[Vec<u8>], n: usize, stride: usize, offset: usize) -> Vec<Vec<Vec<u8>>> {
    let mut out = vec![];
    for size in 1..=n {
        let total = pool.len().pow(size as u32);
        let (st, off) = if size == n && size > 2 { (stride.max(1), offset % stride.max(1)) } else { (1, 0) };
        let mut i = off;
        while i < total {
            let mut x = i;
            let mut l = Vec::with_capacity(size);
            for _ in 0..size {
                l.push(pool[x % pool.len()].clone());
                x /= pool.len();
            }
            l.reverse();
            out.push(l);
            i += st;
        }
    }
    out
}

pub struct Rng(pub u64);
impl Rng {
    pub fn next(&mut self) -> u64 {
        // splitmix64
        self.0 = self.0.wrapping_add(0x9E3779B97F4A7C15);
        let mut z = self.0;
        z = (z ^ (z >> 30)).wrapping_mul(0xBF58476D1CE4E5B9);
        z = (z ^ (z >> 27)).wrapping_mul(0x94D049BB133111EB);
        z ^ (z >> 31)
    }
    pub fn below(&mut self, n: usize) -> usize {
        (self.next() % (n as u64)) as usize
    }
    pub fn bytes(&mut self, alpha: &[u8], len: usize) -> Vec<u8> {
        (0..len).map(|_| alpha[self.below(alpha.len())]).collect()
    }
}

pub fn hex(b: &[u8]) -> String {
    b.iter().map(|x| format!("{:02x}", x)).collect()
}
pub fn unhex(s: &str) -> Vec<u8> {
    (0..s.len() / 2).map(|i| u8::from_str_radix(&s[2 * i..2 * i + 2], 16).unwrap()).collect()
}
/// printable form for reports
pub fn show(b: &[u8]) -> String {
    let mut s = String::new();
    for &c in b {
        if (0x20..0x7f).contains(&c) && c != b'"' && c != b'\\' {
            s.push(c as char);
        } else {
            s.push_str(&format!("\\\\x{:02x}", c));
        }
    }
    s
}
pub fn show_pats(p: &[Vec<u8>]) -> String {
    let v: Vec<String> = p.iter().map(|x| format!("'{}'", show(x))).collect();
    format!("[{}]", v.join(","))
}
pub fn enc_pats(p: &[Vec<u8>]) -> String {
    let v: Vec<String> = p.iter().map(|x| hex(x)).collect();
    v.join(",")
}
pub fn dec_pats(s: &str) -> Vec<Vec<u8>> {
    if s == "-" {
        return vec![];
    }
    s.split(',').map(unhex).collect()
}

/// The provided methods of `Iterator` must agree with draining by `next()`: an iterator type may
/// override them (nth, count, last, size_hint, fold, ...), and adapters such as skip / step_by
/// are built on them.  `mk` makes a fresh iterator, `conv` maps its items to comparable values,
/// `want` is what draining by `next()` must give.
pub fn iter_protocol<I: Iterator, T: PartialEq + std::fmt::Debug>(mk: &dyn Fn() -> I, conv: &dyn Fn(I::Item) -> T, want: &[T]) -> Result<(), String> {
    let n = want.len();
    let eq = |got: &[T], from: usize, step: usize| -> bool {
        let w: Vec<&T> = want.iter().skip(from).step_by(step).collect();
        got.len() == w.len() && got.iter().zip(w).all(|(a, b)| a == b)
    };
    // draining by next(), with size_hint bracketing what is left at every step
    {
        let mut it = mk();
        let mut k = 0;
        loop {
            let (lo, hi) = it.size_hint();
            if k <= n && (lo > n - k || hi.map_or(false, |h| h < n - k)) {
                return Err(format!("size_hint() = ({}, {:?}) with {} items left", lo, hi, n - k));
            }
            match it.next() {
                Some(x) => {
                    let x = conv(x);
                    if k >= n || x != want[k] {
                        return Err(format!("next() #{} = {:?}, expected {:?}", k, x, want.get(k)));
                    }
                    k += 1;
                }
                None => break,
            }
        }
        if k != n {
            return Err(format!("next() ended after {} items, expected {}", k, n));
        }
    }
    let c = mk().count();
    if c != n {
        return Err(format!("count() = {}, expected {}", c, n));
    }
    let l = mk().last().map(conv);
    if l.as_ref() != want.last() {
        return Err(format!("last() = {:?}, expected {:?}", l, want.last()));
    }
    let f = mk().fold(0usize, |a, _| a + 1);
    if f != n {
        return Err(format!("fold() visited {} items, expected {}", f, n));
    }
    for k in 0..=n.min(4) {
        let mut it = mk();
        let got = it.nth(k).map(conv);
        if got.as_ref() != want.get(k) {
            return Err(format!("nth({}) = {:?}, expected {:?}", k, got, want.get(k)));
        }
        let nx = it.next().map(conv);
        if nx.as_ref() != want.get(k + 1) {
            return Err(format!("next() after nth({}) = {:?}, expected {:?}", k, nx, want.get(k + 1)));
        }
        let got: Vec<T> = mk().skip(k).map(conv).collect();
        if !eq(&got, k, 1) {
            return Err(format!("skip({}) gives {:?}, expected the items from #{} of {:?}", k, got, k, want));
        }
        if k >= 1 {
            let mut it = mk();
            for _ in 0..k {
                it.next();
            }
            let c = it.count();
            if c != n.saturating_sub(k) {
                return Err(format!("count() after {} calls of next() = {}, expected {}", k, c, n.saturating_sub(k)));
            }
        }
    }
    for step in [2usize, 3] {
        let got: Vec<T> = mk().step_by(step).map(conv).collect();
        if !eq(&got, 0, step) {
            return Err(format!("step_by({}) gives {:?}, expected every {}th of {:?}", step, got, step, want));
        }
    }
    Ok(())
}
