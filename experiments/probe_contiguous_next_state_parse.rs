// FEASIBILITY PROBE: verbatim contiguous::NFA::next_state; needs enumerate desugar + to_ne_bytes assume_specification.
use vstd::prelude::*;
verus! {

#[derive(Clone, Copy, PartialEq, Eq, PartialOrd, Ord)]
pub struct StateID(pub u32);
impl StateID {
    pub const fn as_usize(&self) -> usize { self.0 as usize }
    pub const fn from_u32_unchecked(index: u32) -> StateID { StateID(index) }
    pub const fn new_unchecked(index: usize) -> StateID { StateID(index as u32) }
}
pub(crate) trait U16 { fn high_u8(self) -> u8; }
impl U16 for u16 {
    fn high_u8(self) -> (r: u8) ensures r == (self >> 8) as u8 { (self >> 8) as u8 }
}
pub(crate) trait U32 { fn as_usize(self) -> usize; fn low_u16(self) -> u16; }
impl U32 for u32 {
    fn as_usize(self) -> (r: usize) ensures r == self as usize { self as usize }
    fn low_u16(self) -> (r: u16) ensures r == self as u16 { self as u16 }
}
#[derive(Clone, Copy, PartialEq, Eq)]
pub enum Anchored { No, Yes }
impl Anchored {
    pub fn is_anchored(&self) -> (r: bool) ensures r == (*self is Yes) { matches!(*self, Anchored::Yes) }
}
pub struct ByteClasses(pub [u8; 256]);
impl ByteClasses {
    #[inline]
    pub(crate) fn get(&self, byte: u8) -> u8 {
        self.0[usize::from(byte)]
    }
}
pub struct State {}
impl State {
    const KIND_DENSE: u32 = 0xFF;
    const KIND_ONE: u32 = 0xFE;
}
fn u32_len(ntrans: usize) -> usize {
    if ntrans % 4 == 0 {
        ntrans >> 2
    } else {
        (ntrans >> 2) + 1
    }
}
pub struct NFA { repr: Vec<u32>, byte_classes: ByteClasses }
impl NFA {
    const DEAD: StateID = StateID::new_unchecked(0);
    const FAIL: StateID = StateID::new_unchecked(1);

    #[verifier::exec_allows_no_decreases_clause]
    fn next_state(
        &self,
        anchored: Anchored,
        mut sid: StateID,
        byte: u8,
    ) -> StateID {
        let repr = &self.repr;
        let class = self.byte_classes.get(byte);
        let u32tosid = StateID::from_u32_unchecked;
        loop {
            let o = sid.as_usize();
            let kind = repr[o] & 0xFF;
            if kind == State::KIND_DENSE {
                let next = u32tosid(repr[o + 2 + usize::from(class)]);
                if next != NFA::FAIL {
                    return next;
                }
            } else if kind == State::KIND_ONE {
                if class == repr[o].low_u16().high_u8() {
                    return u32tosid(repr[o + 2]);
                }
            } else {
                let trans_len = kind.as_usize();
                let classes_len = u32_len(trans_len);
                let trans_offset = o + 2 + classes_len;
                for (i, chunk__ref) in
                    repr[o + 2..][..classes_len].iter().enumerate()
                { let chunk = *chunk__ref;
                    let classes = chunk.to_ne_bytes();
                    if classes[0] == class {
                        return u32tosid(repr[trans_offset + i * 4]);
                    }
                    if classes[1] == class {
                        return u32tosid(repr[trans_offset + i * 4 + 1]);
                    }
                    if classes[2] == class {
                        return u32tosid(repr[trans_offset + i * 4 + 2]);
                    }
                    if classes[3] == class {
                        return u32tosid(repr[trans_offset + i * 4 + 3]);
                    }
                }
            }
            if anchored.is_anchored() {
                return NFA::DEAD;
            }
            sid = u32tosid(repr[o + 1]);
        }
    }
}

} // verus!
fn main() {}
