// FEASIBILITY PROBE (not framework code): verbatim util/buffer.rs::Buffer::{buffer,free_buffer,roll}
// with a content postcondition on roll. Run: verus probe_buffer_roll.rs  -> 4 verified, 0 errors
use vstd::prelude::*;
verus! {

pub struct Buffer { buf: Vec<u8>, min: usize, end: usize }

impl Buffer {
    pub closed spec fn wf(&self) -> bool { self.end <= self.buf@.len() && self.min >= 1 && self.min < self.buf@.len() }

    pub closed spec fn view_s(&self) -> Seq<u8> { self.buf@.subrange(0, self.end as int) }
    pub closed spec fn min_s(&self) -> usize { self.min }
    pub closed spec fn end_s(&self) -> usize { self.end }
    #[inline]
    pub(crate) fn buffer(&self) -> (r: &[u8])
        requires self.wf()
        ensures r@ == self.view_s()
    {
        &self.buf[..self.end]
    }

    fn free_buffer(&mut self) -> (r: &mut [u8])
        requires old(self).wf()
    {
        &mut self.buf[self.end..]
    }

    pub(crate) fn roll(&mut self)
        requires old(self).wf(), old(self).end_s() >= old(self).min_s()
        ensures final(self).wf(), final(self).end_s() == final(self).min_s(),
          final(self).view_s() == old(self).view_s().subrange(old(self).end_s() - old(self).min_s(), old(self).end_s() as int)
    {
        let roll_start = self
            .end
            .checked_sub(self.min)
            .expect("buffer capacity should be bigger than minimum amount");
        let roll_end = roll_start + self.min;

        assert!(roll_end <= self.end);
        self.buf.copy_within(roll_start..roll_end, 0);
        self.end = self.min;
    }
}

} // verus!
fn main() {}
