// DRAFT of the declarative layer S0 (DESIGN.md section 3): the property statements C01, C02,
// C03, C09, C10, C11, C12 written as Verus spec predicates, taken from properties.jsonl and NOT
// from the code. Type-checked with `verus spec_draft_s0.rs`; no executable code, no proofs yet.
use vstd::prelude::*;
verus! {

pub type Pats = Seq<Seq<u8>>;

pub struct M { pub pid: int, pub start: int, pub end: int }

pub open spec fn lower(b: u8) -> u8 {
    if 0x41 <= b <= 0x5A { (b + 0x20) as u8 } else { b }
}

/// C11: fold exactly the ASCII letters, nothing else.
pub open spec fn fold(ci: bool, b: u8) -> u8 { if ci { lower(b) } else { b } }

/// Pattern `p` of `pats` occurs in `h` at `[i, j)`.
pub open spec fn occ(pats: Pats, ci: bool, h: Seq<u8>, p: int, i: int, j: int) -> bool {
    &&& 0 <= p < pats.len()
    &&& 0 <= i <= j <= h.len()
    &&& j - i == pats[p].len()
    &&& forall|k: int| 0 <= k < j - i ==> fold(ci, #[trigger] h[i + k]) == fold(ci, pats[p][k])
}

/// ... inside the searched span `[s, e]` (C10: nothing outside the span is looked at);
/// `anch` restricts to occurrences beginning at the span start (C09).
pub open spec fn occ_in(pats: Pats, ci: bool, h: Seq<u8>, s: int, e: int, anch: bool, m: M) -> bool {
    &&& occ(pats, ci, h, m.pid, m.start, m.end)
    &&& s <= m.start && m.end <= e
    &&& anch ==> m.start == s
}

pub enum Kind { Standard, LeftmostFirst, LeftmostLongest }

/// `a` is strictly preferred to `b` under the given semantics (C01 / C02).
pub open spec fn better(k: Kind, a: M, b: M) -> bool {
    match k {
        // smallest start, then the pattern supplied first
        Kind::LeftmostFirst => a.start < b.start || (a.start == b.start && a.pid < b.pid),
        // smallest start, then longest, ties to the one supplied first
        Kind::LeftmostLongest => a.start < b.start
            || (a.start == b.start && a.end > b.end)
            || (a.start == b.start && a.end == b.end && a.pid < b.pid),
        // smallest end, then longest, then the one supplied first
        Kind::Standard => a.end < b.end
            || (a.end == b.end && a.start < b.start)
            || (a.end == b.end && a.start == b.start && a.pid < b.pid),
    }
}

/// The result a non-overlapping search must return (None iff nothing occurs).
pub open spec fn is_find(pats: Pats, ci: bool, k: Kind, h: Seq<u8>, s: int, e: int, anch: bool, r: Option<M>) -> bool {
    match r {
        None => forall|m: M| !occ_in(pats, ci, h, s, e, anch, m),
        Some(a) => occ_in(pats, ci, h, s, e, anch, a)
            && forall|b: M| occ_in(pats, ci, h, s, e, anch, b) && b != a ==> better(k, a, b),
    }
}

/// C14: what an `earliest` search may return relative to the normal answer.
pub open spec fn is_earliest_ok(pats: Pats, ci: bool, h: Seq<u8>, s: int, e: int, anch: bool,
                                normal: Option<M>, r: Option<M>) -> bool {
    &&& (r is None) == (normal is None)
    &&& r is Some ==> occ_in(pats, ci, h, s, e, anch, r->Some_0) && r->Some_0.end <= normal->Some_0.end
}

/// C01/C02/C09: the non-overlapping iterator. `from` is the current span start and `last` the end
/// of the previously yielded match; `out` is the whole remaining sequence.
pub open spec fn is_iter(pats: Pats, ci: bool, k: Kind, h: Seq<u8>, from: int, e: int, anch: bool,
                         last: Option<int>, out: Seq<M>) -> bool
    decreases e + 1 - from, out.len()
{
    if from > e { out.len() == 0 } else {
        exists|r: Option<M>| #[trigger] is_find(pats, ci, k, h, from, e, anch, r) && match r {
            None => out.len() == 0,
            Some(m) =>
                if m.start == m.end && last == Some(m.end) {
                    // an empty match is never yielded where the previous match ended
                    is_iter(pats, ci, k, h, from + 1, e, anch, None, out)
                } else {
                    out.len() > 0 && out[0] == m && m.end >= from
                        && (m.end > from || m.start == m.end)
                        && is_iter(pats, ci, k, h, if m.end > from { m.end } else { from }, e, anch,
                                   Some(m.end), out.subrange(1, out.len() as int))
                },
        }
    }
}

/// C03: order of the overlapping listing: end asc, longer first, then supply order.
pub open spec fn ov_before(a: M, b: M) -> bool {
    a.end < b.end || (a.end == b.end && a.start < b.start)
        || (a.end == b.end && a.start == b.start && a.pid < b.pid)
}

/// C03: `out` is every occurrence in the span exactly once, in that order.
pub open spec fn is_overlap_list(pats: Pats, ci: bool, h: Seq<u8>, s: int, e: int, out: Seq<M>) -> bool {
    &&& forall|i: int| 0 <= i < out.len() ==> occ_in(pats, ci, h, s, e, false, #[trigger] out[i])
    &&& forall|i: int, j: int| 0 <= i < j < out.len() ==> ov_before(out[i], out[j])
    &&& forall|m: M| occ_in(pats, ci, h, s, e, false, m) ==> exists|i: int| 0 <= i < out.len() && out[i] == m
}

/// C12/C08: splice. `ms` are the matches actually replaced (in order, non-overlapping),
/// `repl(i)` what was appended for the i-th of them; bytes outside matches are copied in order.
pub open spec fn splice(h: Seq<u8>, ms: Seq<M>, repl: spec_fn(int) -> Seq<u8>, from: int, i: int) -> Seq<u8>
    decreases ms.len() - i
{
    if i >= ms.len() || i < 0 { h.subrange(from, h.len() as int) } else {
        h.subrange(from, ms[i].start) + repl(i) + splice(h, ms, repl, ms[i].end, i + 1)
    }
}

} // verus!
fn main() {}
