// FEASIBILITY PROBE: verbatim Buffer::fill<R: Read> under a contract-carrying Read trait.
// Parses and reaches VC generation; free_buffer needs to be external_body (see DESIGN 1).
use vstd::prelude::*;
verus! {

pub struct IoError { pub k: u8 }

pub trait Read {
    // ghost: the full (infinite-horizon) stream content and how much has been consumed
    spec fn stream(&self) -> Seq<u8>;
    spec fn pos(&self) -> nat;

    fn read(&mut self, buf: &mut [u8]) -> (r: Result<usize, IoError>)
        ensures
            final(self).stream() == old(self).stream(),
            final(buf)@.len() == old(buf)@.len(),
            match r {
                Ok(n) => n <= old(buf)@.len()
                    && final(self).pos() == old(self).pos() + n
                    && final(self).pos() <= final(self).stream().len()
                    && final(buf)@.subrange(0, n as int) == old(self).stream().subrange(old(self).pos() as int, old(self).pos() + n)
                    && final(buf)@.subrange(n as int, final(buf)@.len() as int) == old(buf)@.subrange(n as int, old(buf)@.len() as int)
                    && (n == 0 && old(buf)@.len() > 0 ==> old(self).pos() == old(self).stream().len()),
                Err(_) => final(self).pos() == old(self).pos() && final(buf)@ == old(buf)@,
            };
}

pub struct Buffer { buf: Vec<u8>, min: usize, end: usize }

impl Buffer {
    pub closed spec fn wf(&self) -> bool { self.end <= self.buf@.len() && self.min >= 1 && self.min < self.buf@.len() }
    pub closed spec fn view_s(&self) -> Seq<u8> { self.buf@.subrange(0, self.end as int) }
    pub closed spec fn min_s(&self) -> usize { self.min }
    pub closed spec fn end_s(&self) -> usize { self.end }
    pub closed spec fn cap_s(&self) -> nat { self.buf@.len() }

    #[inline]
    pub(crate) fn buffer(&self) -> (r: &[u8])
        requires self.wf()
        ensures r@ == self.view_s()
    {
        &self.buf[..self.end]
    }

    fn free_buffer(&mut self) -> (r: &mut [u8])
        requires old(self).wf()
        ensures
            r@ =~= old(self).buf@.subrange(old(self).end as int, old(self).buf@.len() as int),
            final(self).end == old(self).end, final(self).min == old(self).min,
            final(self).buf@ =~= old(self).buf@.subrange(0, old(self).end as int) + final(r)@,
    {
        &mut self.buf[self.end..]
    }

    pub(crate) fn fill<R: Read>(
        &mut self,
        mut rdr: R,
    ) -> (res: Result<bool, IoError>)
        requires old(self).wf()
        ensures final(self).wf()
    {
        let mut readany = false;
        loop
            invariant self.wf()
            decreases 0int
        {
            let readlen = rdr.read(self.free_buffer())?;
            if readlen == 0 {
                return Ok(readany);
            }
            readany = true;
            self.end += readlen;
            if self.buffer().len() >= self.min {
                return Ok(true);
            }
        }
    }
}

} // verus!
fn main() {}
