// FEASIBILITY PROBE: verbatim StreamChunkIter::{next,get_*} accepted by Verus after rules R-ioPath and R-refFor;
// remaining errors are the real obligations (underflow, slice bounds) that the contracts must discharge.
use vstd::prelude::*;
verus! {

pub struct IoError { pub k: u8 }
pub mod vio { pub type Result<T> = core::result::Result<T, super::IoError>; }

pub trait Read {
    fn read(&mut self, buf: &mut [u8]) -> (r: Result<usize, IoError>);
}

impl<R: Read + ?Sized> Read for &mut R {
    #[verifier::external_body]
    fn read(&mut self, buf: &mut [u8]) -> (r: Result<usize, IoError>) { (**self).read(buf) }
}

#[derive(Clone, Copy, PartialEq, Eq)]
pub struct StateID(pub u32);
#[derive(Clone, Copy, PartialEq, Eq)]
pub struct PatternID(pub u32);
#[derive(Clone, Copy, PartialEq, Eq)]
pub enum Anchored { No, Yes }
#[derive(Clone, Copy, PartialEq, Eq)]
pub struct Span { pub start: usize, pub end: usize }
#[derive(Clone, Copy, PartialEq, Eq)]
pub struct Match { pub pattern: PatternID, pub span: Span }
impl Match {
    pub fn len(&self) -> usize { if self.span.end >= self.span.start { self.span.end - self.span.start } else { 0 } }
}

pub trait Automaton {
    fn next_state(&self, anchored: Anchored, sid: StateID, byte: u8) -> (r: StateID);
    fn is_match(&self, sid: StateID) -> (r: bool);
}

#[verifier::external_body]
fn get_match<A: Automaton>(aut: &A, sid: StateID, index: usize, at: usize) -> Match { unimplemented!() }

pub struct Buffer { buf: Vec<u8>, min: usize, end: usize }
impl Buffer {
    #[verifier::external_body]
    pub(crate) fn buffer(&self) -> (r: &[u8]) { &self.buf[..self.end] }
    #[verifier::external_body]
    pub(crate) fn min_buffer_len(&self) -> usize { self.min }
    #[verifier::external_body]
    pub(crate) fn roll(&mut self) { }
    #[verifier::external_body]
    pub(crate) fn fill<R: Read>(&mut self, rdr: R) -> vio::Result<bool> { unimplemented!() }
}

enum StreamChunk<'r> {
    NonMatch { bytes: &'r [u8] },
    Match { bytes: &'r [u8], mat: Match },
}

struct StreamChunkIter<'a, A, R> {
    aut: &'a A,
    rdr: R,
    buf: Buffer,
    start: StateID,
    sid: StateID,
    absolute_pos: usize,
    buffer_pos: usize,
    buffer_reported_pos: usize,
}

impl<'a, A: Automaton, R: Read> StreamChunkIter<'a, A, R> {
    fn get_match(&self) -> Match {
        get_match(self.aut, self.sid, 0, self.absolute_pos)
    }
    #[verifier::exec_allows_no_decreases_clause]
fn next(&mut self) -> Option<vio::Result<StreamChunk>> {
        loop {
            if self.aut.is_match(self.sid) {
                let mat = self.get_match();
                if let Some(r) = self.get_non_match_chunk(mat) {
                    self.buffer_reported_pos += r.len();
                    let bytes = &self.buf.buffer()[r];
                    return Some(Ok(StreamChunk::NonMatch { bytes }));
                }
                self.sid = self.start;
                let r = self.get_match_chunk(mat);
                self.buffer_reported_pos += r.len();
                let bytes = &self.buf.buffer()[r];
                return Some(Ok(StreamChunk::Match { bytes, mat }));
            }
            if self.buffer_pos >= self.buf.buffer().len() {
                if let Some(r) = self.get_pre_roll_non_match_chunk() {
                    self.buffer_reported_pos += r.len();
                    let bytes = &self.buf.buffer()[r];
                    return Some(Ok(StreamChunk::NonMatch { bytes }));
                }
                if self.buf.buffer().len() >= self.buf.min_buffer_len() {
                    self.buffer_pos = self.buf.min_buffer_len();
                    self.buffer_reported_pos -=
                        self.buf.buffer().len() - self.buf.min_buffer_len();
                    self.buf.roll();
                }
                match self.buf.fill(&mut self.rdr) {
                    Err(err) => return Some(Err(err)),
                    Ok(true) => {}
                    Ok(false) => {
                        if let Some(r) = self.get_eof_non_match_chunk() {
                            self.buffer_reported_pos += r.len();
                            let bytes = &self.buf.buffer()[r];
                            return Some(Ok(StreamChunk::NonMatch { bytes }));
                        }
                        return None;
                    }
                }
            }
            let start = self.absolute_pos;
            for byte__ref in self.buf.buffer()[self.buffer_pos..].iter() { let byte = *byte__ref;
                self.sid = self.aut.next_state(Anchored::No, self.sid, byte);
                self.absolute_pos += 1;
                if self.aut.is_match(self.sid) {
                    break;
                }
            }
            self.buffer_pos += self.absolute_pos - start;
        }
    }

fn get_match_chunk(&self, mat: Match) -> core::ops::Range<usize> {
        let start = self.buffer_pos - mat.len();
        let end = self.buffer_pos;
        start..end
    }

fn get_non_match_chunk(
        &self,
        mat: Match,
    ) -> Option<core::ops::Range<usize>> {
        let buffer_mat_start = self.buffer_pos - mat.len();
        if buffer_mat_start > self.buffer_reported_pos {
            let start = self.buffer_reported_pos;
            let end = buffer_mat_start;
            return Some(start..end);
        }
        None
    }

fn get_pre_roll_non_match_chunk(&self) -> Option<core::ops::Range<usize>> {
        let end =
            self.buf.buffer().len().saturating_sub(self.buf.min_buffer_len());
        if self.buffer_reported_pos < end {
            return Some(self.buffer_reported_pos..end);
        }
        None
    }

fn get_eof_non_match_chunk(&self) -> Option<core::ops::Range<usize>> {
        if self.buffer_reported_pos < self.buf.buffer().len() {
            return Some(self.buffer_reported_pos..self.buf.buffer().len());
        }
        None
    }
}

} // verus!
fn main() {}
