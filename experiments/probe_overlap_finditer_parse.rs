// FEASIBILITY PROBE (not framework code): can Verus digest the *verbatim* body of
// automaton.rs::try_find_fwd_imp / get_match and discharge a functional postcondition
// over an abstract automaton contract?  Run: verus probe_search_loop.rs
//
// The two function bodies below were pasted from /repo/src/automaton.rs without edits
// (only comments removed); everything else is the hand-written spec prelude that the
// framework will keep in /verif and splice around mechanically extracted bodies.
use vstd::prelude::*;
verus! {

#[derive(Clone, Copy, PartialEq, Eq)]
pub struct StateID(pub u32);
#[derive(Clone, Copy, PartialEq, Eq)]
pub struct PatternID(pub u32);

#[derive(Clone, Copy, PartialEq, Eq)]
pub enum Anchored { No, Yes }

impl Anchored {
    pub fn is_anchored(&self) -> (r: bool)
        ensures r == (*self is Yes)
    {
        matches!(*self, Anchored::Yes)
    }
}

#[derive(Clone, Copy, PartialEq, Eq)]
pub struct Span { pub start: usize, pub end: usize }

impl vstd::std_specs::convert::FromSpecImpl<core::ops::Range<usize>> for Span {
    open spec fn obeys_from_spec() -> bool { true }
    open spec fn from_spec(range: core::ops::Range<usize>) -> Span {
        Span { start: range.start, end: range.end }
    }
}

impl From<core::ops::Range<usize>> for Span {
    #[inline]
    fn from(range: core::ops::Range<usize>) -> (s: Span)
    {
        Span { start: range.start, end: range.end }
    }
}

#[derive(Clone, Copy, PartialEq, Eq)]
pub struct Match { pub pattern: PatternID, pub span: Span }

impl Match {
    pub fn new(pattern: PatternID, span: core::ops::Range<usize>) -> (m: Match)
        requires span.start <= span.end
        ensures m == (Match { pattern, span: Span { start: span.start, end: span.end } })
    {
        let span = Span { start: span.start, end: span.end };
        assert(span.start <= span.end);
        Match { pattern, span }
    }
    pub fn start(&self) -> (r: usize) ensures r == self.span.start { self.span.start }
}

pub struct Input<'h> {
    pub haystack: &'h [u8],
    pub span: Span,
    pub anchored: Anchored,
    pub earliest: bool,
}

impl<'h> Input<'h> {
    pub open spec fn wf(&self) -> bool {
        self.span.end <= self.haystack@.len() && self.span.start <= self.span.end + 1
    }
    pub fn haystack(&self) -> (r: &[u8]) ensures r == self.haystack { self.haystack }
    pub fn start(&self) -> (r: usize) ensures r == self.span.start { self.span.start }
    pub fn end(&self) -> (r: usize) ensures r == self.span.end { self.span.end }
    pub fn get_span(&self) -> (r: Span) ensures r == self.span { self.span }
    pub fn get_anchored(&self) -> (r: Anchored) ensures r == self.anchored { self.anchored }
}

pub enum Candidate { None, Match(Match), PossibleStartOfMatch(usize) }

impl Candidate {
    pub fn into_option(self) -> (r: Option<usize>)
        ensures r == (match self {
            Candidate::None => None::<usize>,
            Candidate::Match(m) => Some(m.span.start),
            Candidate::PossibleStartOfMatch(s) => Some(s),
        })
    {
        match self {
            Candidate::None => None,
            Candidate::Match(ref m) => Some(m.start()),
            Candidate::PossibleStartOfMatch(start) => Some(start),
        }
    }
}

#[derive(Debug)]
pub struct MatchError { pub k: u8 }

pub struct Prefilter { pub x: u8 }

// ---------------------------------------------------------------------------------
// Abstract automaton contract (this is property C16 written as a trait contract).
// ---------------------------------------------------------------------------------
pub trait Automaton {
    spec fn start_s(&self, anchored: Anchored) -> Option<StateID>;
    spec fn delta(&self, anchored: Anchored, s: StateID, b: u8) -> StateID;
    spec fn special_s(&self, s: StateID) -> bool;
    spec fn dead_s(&self, s: StateID) -> bool;
    spec fn match_s(&self, s: StateID) -> bool;
    spec fn startst_s(&self, s: StateID) -> bool;
    spec fn mpat_s(&self, s: StateID, i: nat) -> PatternID;
    spec fn mlen_s(&self, s: StateID) -> nat;
    spec fn plen_s(&self, p: PatternID) -> nat;
    spec fn depth_s(&self, s: StateID) -> nat;
    spec fn valid_s(&self, s: StateID) -> bool;
    spec fn has_pre(&self) -> bool;
    spec fn post_match(&self, s: StateID) -> bool;

    fn start_state(&self, anchored: Anchored) -> (r: Result<StateID, MatchError>)
        ensures (r is Ok) == (self.start_s(anchored) is Some),
                r is Ok ==> r->Ok_0 == self.start_s(anchored)->Some_0;
    fn next_state(&self, anchored: Anchored, sid: StateID, byte: u8) -> (r: StateID)
        requires self.valid_s(sid)
        ensures r == self.delta(anchored, sid, byte);
    fn is_special(&self, sid: StateID) -> (r: bool)
        requires self.valid_s(sid)
        ensures r == self.special_s(sid);
    fn is_dead(&self, sid: StateID) -> (r: bool)
        requires self.valid_s(sid)
        ensures r == self.dead_s(sid);
    fn is_match(&self, sid: StateID) -> (r: bool)
        requires self.valid_s(sid)
        ensures r == self.match_s(sid);
    fn is_start(&self, sid: StateID) -> (r: bool)
        requires self.valid_s(sid)
        ensures r == self.startst_s(sid);
    fn match_pattern(&self, sid: StateID, index: usize) -> (r: PatternID)
        requires self.valid_s(sid), self.match_s(sid), index < self.mlen_s(sid)
        ensures r == self.mpat_s(sid, index as nat);
    fn pattern_len(&self, pid: PatternID) -> (r: usize)
        ensures r == self.plen_s(pid);
}

pub open spec fn aut_wf<A: Automaton + ?Sized>(a: &A) -> bool {
    &&& forall|an: Anchored| (#[trigger] a.start_s(an)) is Some ==> {
            &&& a.valid_s(a.start_s(an)->Some_0)
            &&& a.depth_s(a.start_s(an)->Some_0) == 0
            &&& !a.dead_s(a.start_s(an)->Some_0) }
    &&& forall|an: Anchored, s: StateID, b: u8| a.valid_s(s) ==> {
            &&& a.valid_s(#[trigger] a.delta(an, s, b))
            &&& a.depth_s(a.delta(an, s, b)) <= a.depth_s(s) + 1 }
    &&& forall|s: StateID| #[trigger] a.valid_s(s) ==> {
            &&& (a.dead_s(s) ==> a.special_s(s))
            &&& (a.match_s(s) ==> a.special_s(s) && !a.dead_s(s) && a.mlen_s(s) >= 1)
            &&& (a.special_s(s) ==> a.dead_s(s) || a.match_s(s) || a.startst_s(s)) }
    &&& forall|s: StateID, i: nat| a.valid_s(s) && a.match_s(s) && i < a.mlen_s(s)
            ==> a.plen_s(#[trigger] a.mpat_s(s, i)) <= a.depth_s(s)
    // an unanchored run can only re-enter *the* unanchored start state
    &&& forall|s: StateID, b: u8| a.valid_s(s) && a.startst_s(#[trigger] a.delta(Anchored::No, s, b))
            ==> a.start_s(Anchored::No) == Some(a.delta(Anchored::No, s, b))
    // an anchored run never re-enters a start state
    &&& forall|s: StateID, b: u8| a.valid_s(s) ==> !a.startst_s(#[trigger] a.delta(Anchored::Yes, s, b))
    // once a match has been seen the start state is never re-entered
    &&& forall|s: StateID| a.valid_s(s) && #[trigger] a.match_s(s) ==> a.post_match(s)
    &&& forall|s: StateID, b: u8| a.valid_s(s) && a.post_match(s)
            ==> a.post_match(#[trigger] a.delta(Anchored::No, s, b))
    &&& forall|s: StateID| a.valid_s(s) && #[trigger] a.post_match(s) ==> !a.startst_s(s)
    // start states are only special when a prefilter exists
    &&& forall|s: StateID| a.valid_s(s) && #[trigger] a.special_s(s) && !a.has_pre()
            ==> a.dead_s(s) || a.match_s(s)
}

pub open spec fn mk_match<A: Automaton + ?Sized>(a: &A, s: StateID, i: nat, at: int) -> Match {
    let p = a.mpat_s(s, i);
    Match { pattern: p, span: Span { start: (at - a.plen_s(p)) as usize, end: at as usize } }
}

// The search, as a mathematical function of the abstract automaton (no prefilter).
pub open spec fn scan<A: Automaton + ?Sized>(
    a: &A, an: Anchored, earliest: bool, hay: Seq<u8>, start: Option<int>, end: int,
    at: int, sid: StateID, mat: Option<Match>,
) -> Option<Match>
    decreases end - at
{
    if at >= end { mat } else {
        let s2 = a.delta(an, sid, hay[at]);
        if a.dead_s(s2) { mat }
        else if a.match_s(s2) {
            let m = mk_match(a, s2, 0, at + 1);
            if !(start is Some && m.span.start > start->Some_0) {
                if earliest { Some(m) } else { scan(a, an, earliest, hay, start, end, at + 1, s2, Some(m)) }
            } else { scan(a, an, earliest, hay, start, end, at + 1, s2, mat) }
        } else { scan(a, an, earliest, hay, start, end, at + 1, s2, mat) }
    }
}
pub open spec fn fstart(an: Anchored, start: int) -> Option<int> {
    if an is Yes { Some(start) } else { None }
}

// Prefilter / automaton coherence contract (what C05 needs from every prefilter).
pub open spec fn pre_ok<A: Automaton + ?Sized>(
    a: &A, earliest: bool, hay: Seq<u8>, end: int, k: int, c: Candidate,
) -> bool {
    let s0 = a.start_s(Anchored::No)->Some_0;
    match c {
        Candidate::None => forall|k2: int| k <= k2 <= end ==>
            (#[trigger] scan(a, Anchored::No, earliest, hay, None, end, k2, s0, None)) is None,
        Candidate::Match(m) => k <= m.span.start <= end && forall|k2: int| k <= k2 <= m.span.start ==>
            #[trigger] scan(a, Anchored::No, earliest, hay, None, end, k2, s0, None) == Some(m),
        Candidate::PossibleStartOfMatch(i) => k <= i <= end && forall|k2: int| k <= k2 <= i ==>
            #[trigger] scan(a, Anchored::No, earliest, hay, None, end, k2, s0, None)
                == scan(a, Anchored::No, earliest, hay, None, end, i as int, s0, None),
    }
}

impl Prefilter {
    pub uninterp spec fn cand_ok(&self, hay: Seq<u8>, span: Span, c: Candidate) -> bool;

    #[verifier::external_body]
    pub fn find_in(&self, haystack: &[u8], span: Span) -> (c: Candidate)
        ensures self.cand_ok(haystack@, span, c)
    { unimplemented!() }
}

pub open spec fn coherent<A: Automaton + ?Sized>(a: &A, pre: &Prefilter, earliest: bool) -> bool {
    forall|hay: Seq<u8>, span: Span, c: Candidate|
        #[trigger] pre.cand_ok(hay, span, c) && span.start <= span.end <= hay.len()
        ==> pre_ok(a, earliest, hay, span.end as int, span.start as int, c)
}


fn get_match<A: Automaton + ?Sized>(
    aut: &A,
    sid: StateID,
    index: usize,
    at: usize,
) -> (m: Match)
    requires aut_wf(aut), aut.valid_s(sid), aut.match_s(sid), index < aut.mlen_s(sid),
             aut.depth_s(sid) <= at,
    ensures m == mk_match(aut, sid, index as nat, at as int)
{
    let pid = aut.match_pattern(sid, index);
    let len = aut.pattern_len(pid);
    Match::new(pid, (at - len)..at)
}


#[derive(Clone, Copy, PartialEq, Eq)]
pub enum MatchKind { Standard, LeftmostFirst, LeftmostLongest }

pub struct OverlappingState {
    mat: Option<Match>,
    id: Option<StateID>,
    at: usize,
    next_match_index: Option<usize>,
}

pub trait AutomatonX: Automaton {
    fn match_len(&self, sid: StateID) -> usize;
    fn prefilter(&self) -> Option<&Prefilter>;
    fn try_find(&self, input: &Input<'_>) -> Result<Option<Match>, MatchError>;
}

impl Match {
    pub fn is_empty(&self) -> bool { self.span.start >= self.span.end }
    pub fn end(&self) -> usize { self.span.end }
}
impl<'h> Input<'h> {
    pub fn is_done(&self) -> bool { self.get_span().start > self.get_span().end }
    #[verifier::external_body]
    pub fn set_start(&mut self, start: usize) { unimplemented!() }
}

fn try_find_overlapping_fwd<A: AutomatonX + ?Sized>(
    aut: &A,
    input: &Input<'_>,
    state: &mut OverlappingState,
) -> Result<(), MatchError> {
    state.mat = None;
    if input.is_done() {
        return Ok(());
    }
    if aut.prefilter().is_some() && !input.get_anchored().is_anchored() {
        let pre = aut.prefilter().unwrap();
        try_find_overlapping_fwd_imp(aut, input, Some(pre), state)
    } else {
        try_find_overlapping_fwd_imp(aut, input, None, state)
    }
}

#[verifier::exec_allows_no_decreases_clause]
fn try_find_overlapping_fwd_imp<A: AutomatonX + ?Sized>(
    aut: &A,
    input: &Input<'_>,
    pre: Option<&Prefilter>,
    state: &mut OverlappingState,
) -> Result<(), MatchError> {
    let mut sid = match state.id {
        None => {
            let sid = aut.start_state(input.get_anchored())?;
            if aut.is_match(sid) {
                let i = state.next_match_index.unwrap_or(0);
                let len = aut.match_len(sid);
                if i < len {
                    state.next_match_index = Some(i + 1);
                    state.mat = Some(get_match(aut, sid, i, input.start()));
                    return Ok(());
                }
            }
            state.at = input.start();
            state.id = Some(sid);
            state.next_match_index = None;
            state.mat = None;
            sid
        }
        Some(sid) => {
            if let Some(i) = state.next_match_index {
                let len = aut.match_len(sid);
                if i < len {
                    state.next_match_index = Some(i + 1);
                    state.mat = Some(get_match(aut, sid, i, state.at + 1));
                    return Ok(());
                }
                state.at += 1;
                state.next_match_index = None;
                state.mat = None;
            }
            sid
        }
    };
    while state.at < input.end() {
        sid = aut.next_state(
            input.get_anchored(),
            sid,
            input.haystack()[state.at],
        );
        if aut.is_special(sid) {
            state.id = Some(sid);
            if aut.is_dead(sid) {
                return Ok(());
            } else if aut.is_match(sid) {
                state.next_match_index = Some(1);
                state.mat = Some(get_match(aut, sid, 0, state.at + 1));
                return Ok(());
            } else if let Some(pre) = pre {
                debug_assert!(aut.is_start(sid));
                let span = Span::from(state.at..input.end());
                match pre.find_in(input.haystack(), span).into_option() {
                    None => return Ok(()),
                    Some(i) => {
                        if i > state.at {
                            state.at = i;
                            continue;
                        }
                    }
                }
            } else {
            }
        }
        state.at += 1;
    }
    state.id = Some(sid);
    Ok(())
}
pub struct FindIter<'a, 'h, A> {
    aut: &'a A,
    input: Input<'h>,
    last_match_end: Option<usize>,
}
impl<'a, 'h, A: AutomatonX> FindIter<'a, 'h, A> {
    fn new(
        aut: &'a A,
        input: Input<'h>,
    ) -> Result<FindIter<'a, 'h, A>, MatchError> {
        let _ = aut.start_state(input.get_anchored())?;
        Ok(FindIter { aut, input, last_match_end: None })
    }
    fn search(&self) -> Option<Match> {
        self.aut
            .try_find(&self.input)
            .expect("already checked that no match error can occur")
    }
    fn handle_overlapping_empty_match(
        &mut self,
        mut m: Match,
    ) -> Option<Match> {
        assert!(m.is_empty());
        if Some(m.end()) == self.last_match_end {
            self.input.set_start(self.input.start().checked_add(1).unwrap());
            m = self.search()?;
        }
        Some(m)
    }
    fn next(&mut self) -> Option<Match> {
        let mut m = self.search()?;
        if m.is_empty() {
            m = self.handle_overlapping_empty_match(m)?;
        }
        self.input.set_start(m.end());
        self.last_match_end = Some(m.end());
        Some(m)
    }
}

} // verus!
fn main() {}
