// UNIT u6_build — the configuration plumbing and the kind selection of the front end: every
// setter of AhoCorasickBuilder and of the three automaton builders it owns (real code, real
// fields), and AhoCorasickBuilder::{build, build_auto}.  Properties: C20 (an explicitly requested
// kind is the kind that is returned — or the build fails; the automatic rule; start kind and
// match kind reach the searcher as given), C13 (the start kind that gates requests is the start
// kind the DFA was built with: `builder_inv`, kept by every setter in every order), C04 (all
// kinds are derived from the one noncontiguous NFA of the same patterns and options).
//
// Out of reach, hence contracts here (trusted, executed by the bounded checks meta / cfgprod /
// bisim): what the three `build` / `build_from_noncontiguous` routines construct.  They are
// abstract functions of (builder fields, input): `nn_build_spec`, `cn_from_spec`, `dfa_from_spec`.
use vstd::prelude::*;
verus! {

//@@ include types.inc

#[derive(Clone, Copy, PartialEq, Eq, Debug)]
//@@ item src/util/search.rs | pub enum StartKind
//@@ sigsub 1 /pub enum/ => enum
//@@ end

#[derive(Clone, Copy, PartialEq, Eq, Debug)]
//@@ item src/ahocorasick.rs | pub enum AhoCorasickKind
//@@ sigsub 1 /pub enum/ => enum
//@@ end

impl MatchKind {
//@@ fn src/util/search.rs | fn default() -> MatchKind | within=impl Default for MatchKind | res=r
//@@ header
        ensures r is Standard
//@@ end
}

struct BuildError { x: u8 }
// R-mono: the generic `I: IntoIterator<Item = P>, P: AsRef<[u8]>` argument is an opaque value here
struct Pats { x: u8 }
// the three automata are opaque in this unit
struct NNFA { x: u8 }
struct CNFA { x: u8 }
struct DFA { x: u8 }

// ---- the three automaton builders: real structs, real setters --------------------------------
// R-namespace: `noncontiguous::Builder` -> NB, `contiguous::Builder` -> CB, `dfa::Builder` -> DB
// R-chain: the builder-style `-> &mut Builder` / trailing `self` is dropped (procedure form)

//@@ item src/nfa/noncontiguous.rs | pub struct Builder
//@@ sigsub 1 /pub struct Builder/ => struct NB
//@@ end
//@@ item src/nfa/contiguous.rs | pub struct Builder
//@@ sigsub 1 /pub struct Builder/ => struct CB
//@@ sub 1 /noncontiguous::Builder/ => NB
//@@ end
//@@ item src/dfa.rs | pub struct Builder
//@@ sigsub 1 /pub struct Builder/ => struct DB
//@@ sub 1 /noncontiguous::Builder/ => NB
//@@ end

// what the real builders construct (assumed contracts; see the header)
uninterp spec fn nn_build_spec(b: NB, p: Pats) -> Result<NNFA, BuildError>;
uninterp spec fn cn_from_spec(b: CB, n: NNFA) -> Result<CNFA, BuildError>;
uninterp spec fn dfa_from_spec(b: DB, n: NNFA) -> Result<DFA, BuildError>;
uninterp spec fn nn_plen(n: NNFA) -> nat;
// the anchoring modes a built DFA supports
uninterp spec fn dfa_start_kind(d: DFA) -> StartKind;

impl NNFA {
    #[verifier::external_body]
    fn patterns_len(&self) -> (r: usize) ensures r == nn_plen(*self) { unimplemented!() }
}

impl NB {
//@@ fn src/nfa/noncontiguous.rs | fn default() -> Builder | within=impl Default for Builder | res=r
//@@ sigsub 1 /-> Builder/ => -> NB
//@@ sub 1 /Builder \{/ => NB {
//@@ header
        ensures r.match_kind is Standard, r.prefilter, !r.ascii_case_insensitive, r.dense_depth == 3,
//@@ end

//@@ fn src/nfa/noncontiguous.rs | pub fn new() -> Builder | within=impl Builder | res=r
//@@ sigsub 1 /pub fn new\(\) -> Builder/ => fn new() -> NB
//@@ sub 1 /Builder::default\(\)/ => NB::default()
//@@ header
        ensures r.match_kind is Standard, r.prefilter, !r.ascii_case_insensitive, r.dense_depth == 3,
//@@ end

//@@ fn src/nfa/noncontiguous.rs | pub fn match_kind(&mut self, kind: MatchKind) -> &mut Builder | within=impl Builder
//@@ sigsub 1 /pub fn/ => fn
//@@ sigsub 1 /-> &mut Builder/ =>
//@@ sub 1 /\bself\s*\}\s*\Z/ => }
//@@ header
        ensures *final(self) == (NB { match_kind: kind, ..*old(self) }),
//@@ end

//@@ fn src/nfa/noncontiguous.rs | pub fn ascii_case_insensitive(&mut self, yes: bool) -> &mut Builder | within=impl Builder
//@@ sigsub 1 /pub fn/ => fn
//@@ sigsub 1 /-> &mut Builder/ =>
//@@ sub 1 /\bself\s*\}\s*\Z/ => }
//@@ header
        ensures *final(self) == (NB { ascii_case_insensitive: yes, ..*old(self) }),
//@@ end

//@@ fn src/nfa/noncontiguous.rs | pub fn dense_depth(&mut self, depth: usize) -> &mut Builder | within=impl Builder
//@@ sigsub 1 /pub fn/ => fn
//@@ sigsub 1 /-> &mut Builder/ =>
//@@ sub 1 /\bself\s*\}\s*\Z/ => }
//@@ header
        ensures *final(self) == (NB { dense_depth: depth, ..*old(self) }),
//@@ end

//@@ fn src/nfa/noncontiguous.rs | pub fn prefilter(&mut self, yes: bool) -> &mut Builder | within=impl Builder
//@@ sigsub 1 /pub fn/ => fn
//@@ sigsub 1 /-> &mut Builder/ =>
//@@ sub 1 /\bself\s*\}\s*\Z/ => }
//@@ header
        ensures *final(self) == (NB { prefilter: yes, ..*old(self) }),
//@@ end

    // trusted: the compiler (contract: an abstract function of the options and the patterns)
    #[verifier::external_body]
    fn build(&self, patterns: Pats) -> (r: Result<NNFA, BuildError>)
        ensures r == nn_build_spec(*self, patterns),
    { unimplemented!() }
}

impl CB {
//@@ fn src/nfa/contiguous.rs | fn default() -> Builder | within=impl Default for Builder | res=r
//@@ sigsub 1 /-> Builder/ => -> CB
//@@ sub 1 /Builder \{/ => CB {
//@@ sub 1 /noncontiguous::Builder::(new|default)\(\)/ => NB::\1()
//@@ header
        ensures r.noncontiguous.match_kind is Standard, r.noncontiguous.prefilter, !r.noncontiguous.ascii_case_insensitive,
                r.dense_depth == 2, r.byte_classes,
//@@ end

//@@ fn src/nfa/contiguous.rs | pub fn match_kind(&mut self, kind: MatchKind) -> &mut Builder | within=impl Builder
//@@ sigsub 1 /pub fn/ => fn
//@@ sigsub 1 /-> &mut Builder/ =>
//@@ sub 1 /\bself\s*\}\s*\Z/ => }
//@@ header
        ensures *final(self) == (CB { noncontiguous: NB { match_kind: kind, ..old(self).noncontiguous }, ..*old(self) }),
//@@ end

//@@ fn src/nfa/contiguous.rs | pub fn ascii_case_insensitive(&mut self, yes: bool) -> &mut Builder | within=impl Builder
//@@ sigsub 1 /pub fn/ => fn
//@@ sigsub 1 /-> &mut Builder/ =>
//@@ sub 1 /\bself\s*\}\s*\Z/ => }
//@@ header
        ensures *final(self) == (CB { noncontiguous: NB { ascii_case_insensitive: yes, ..old(self).noncontiguous }, ..*old(self) }),
//@@ end

//@@ fn src/nfa/contiguous.rs | pub fn prefilter(&mut self, yes: bool) -> &mut Builder | within=impl Builder
//@@ sigsub 1 /pub fn/ => fn
//@@ sigsub 1 /-> &mut Builder/ =>
//@@ sub 1 /\bself\s*\}\s*\Z/ => }
//@@ header
        ensures *final(self) == (CB { noncontiguous: NB { prefilter: yes, ..old(self).noncontiguous }, ..*old(self) }),
//@@ end

//@@ fn src/nfa/contiguous.rs | pub fn dense_depth(&mut self, depth: usize) -> &mut Builder | within=impl Builder
//@@ sigsub 1 /pub fn/ => fn
//@@ sigsub 1 /-> &mut Builder/ =>
//@@ sub 1 /\bself\s*\}\s*\Z/ => }
//@@ header
        ensures *final(self) == (CB { dense_depth: depth, ..*old(self) }),
//@@ end

//@@ fn src/nfa/contiguous.rs | pub fn byte_classes(&mut self, yes: bool) -> &mut Builder | within=impl Builder
//@@ sigsub 1 /pub fn/ => fn
//@@ sigsub 1 /-> &mut Builder/ =>
//@@ sub 1 /\bself\s*\}\s*\Z/ => }
//@@ header
        ensures *final(self) == (CB { byte_classes: yes, ..*old(self) }),
//@@ end

// the low-level entry point: the NFA of this builder's own options, then the encoder (C04: the
// contiguous NFA of a pattern list is derived from the noncontiguous NFA of the same list)
//@@ fn src/nfa/contiguous.rs | pub fn build<I, P>(&self, patterns: I) -> Result<NFA, BuildError> | within=impl Builder | res=r
//@@ sigsub 1 /pub fn build<I, P>\(&self, patterns: I\) -> Result<NFA, BuildError>/ => fn build(&self, patterns: Pats) -> Result<CNFA, BuildError>
//@@ sigsub 1 /where\s+I: IntoIterator<Item = P>,\s+P: AsRef<\[u8\]>,/ =>
//@@ header
        ensures
            nn_build_spec(self.noncontiguous, patterns) is Err ==> r is Err,
            nn_build_spec(self.noncontiguous, patterns) is Ok ==> r == cn_from_spec(*self, nn_build_spec(self.noncontiguous, patterns)->Ok_0),
//@@ end

    // trusted: the encoder
    #[verifier::external_body]
    fn build_from_noncontiguous(&self, nnfa: &NNFA) -> (r: Result<CNFA, BuildError>)
        ensures r == cn_from_spec(*self, *nnfa),
    { unimplemented!() }
}

impl DB {
//@@ fn src/dfa.rs | fn default() -> Builder | within=impl Default for Builder | res=r
//@@ sigsub 1 /-> Builder/ => -> DB
//@@ sub 1 /Builder \{/ => DB {
//@@ sub 1 /noncontiguous::Builder::(new|default)\(\)/ => NB::\1()
//@@ header
        ensures r.noncontiguous.match_kind is Standard, r.noncontiguous.prefilter, !r.noncontiguous.ascii_case_insensitive,
                r.start_kind is Unanchored, r.byte_classes,
//@@ end

//@@ fn src/dfa.rs | pub fn match_kind(&mut self, kind: MatchKind) -> &mut Builder | within=impl Builder
//@@ sigsub 1 /pub fn/ => fn
//@@ sigsub 1 /-> &mut Builder/ =>
//@@ sub 1 /\bself\s*\}\s*\Z/ => }
//@@ header
        ensures *final(self) == (DB { noncontiguous: NB { match_kind: kind, ..old(self).noncontiguous }, ..*old(self) }),
//@@ end

//@@ fn src/dfa.rs | pub fn ascii_case_insensitive(&mut self, yes: bool) -> &mut Builder | within=impl Builder
//@@ sigsub 1 /pub fn/ => fn
//@@ sigsub 1 /-> &mut Builder/ =>
//@@ sub 1 /\bself\s*\}\s*\Z/ => }
//@@ header
        ensures *final(self) == (DB { noncontiguous: NB { ascii_case_insensitive: yes, ..old(self).noncontiguous }, ..*old(self) }),
//@@ end

//@@ fn src/dfa.rs | pub fn prefilter(&mut self, yes: bool) -> &mut Builder | within=impl Builder
//@@ sigsub 1 /pub fn/ => fn
//@@ sigsub 1 /-> &mut Builder/ =>
//@@ sub 1 /\bself\s*\}\s*\Z/ => }
//@@ header
        ensures *final(self) == (DB { noncontiguous: NB { prefilter: yes, ..old(self).noncontiguous }, ..*old(self) }),
//@@ end

//@@ fn src/dfa.rs | pub fn start_kind(&mut self, kind: StartKind) -> &mut Builder | within=impl Builder
//@@ sigsub 1 /pub fn/ => fn
//@@ sigsub 1 /-> &mut Builder/ =>
//@@ sub 1 /\bself\s*\}\s*\Z/ => }
//@@ header
        ensures *final(self) == (DB { start_kind: kind, ..*old(self) }),
//@@ end

//@@ fn src/dfa.rs | pub fn byte_classes(&mut self, yes: bool) -> &mut Builder | within=impl Builder
//@@ sigsub 1 /pub fn/ => fn
//@@ sigsub 1 /-> &mut Builder/ =>
//@@ sub 1 /\bself\s*\}\s*\Z/ => }
//@@ header
        ensures *final(self) == (DB { byte_classes: yes, ..*old(self) }),
//@@ end

//@@ fn src/dfa.rs | pub fn build<I, P>(&self, patterns: I) -> Result<DFA, BuildError> | within=impl Builder | res=r
//@@ sigsub 1 /pub fn build<I, P>\(&self, patterns: I\)/ => fn build(&self, patterns: Pats)
//@@ sigsub 1 /where\s+I: IntoIterator<Item = P>,\s+P: AsRef<\[u8\]>,/ =>
//@@ header
        ensures
            nn_build_spec(self.noncontiguous, patterns) is Err ==> r is Err,
            nn_build_spec(self.noncontiguous, patterns) is Ok ==> r == dfa_from_spec(*self, nn_build_spec(self.noncontiguous, patterns)->Ok_0),
            r is Ok ==> dfa_start_kind(r->Ok_0) == self.start_kind,
//@@ end

    // trusted: the determinizer; A-dfa-starts: a DFA supports exactly the anchoring modes of the
    // start kind its builder was given (executed by cfgprod on every configuration)
    #[verifier::external_body]
    fn build_from_noncontiguous(&self, nnfa: &NNFA) -> (r: Result<DFA, BuildError>)
        ensures r == dfa_from_spec(*self, *nnfa),
                r is Ok ==> dfa_start_kind(r->Ok_0) == self.start_kind,
    { unimplemented!() }
}

// ---- the front end ----------------------------------------------------------------------------

// R-dyn: `Arc<dyn AcAutomaton>` -> ArcAut, an opaque handle whose ghost view says which automaton
// it wraps; R-arc: `Arc::new(x)` -> `arc_new(x)`
enum AutView { NC(NNFA), C(CNFA), D(DFA) }
struct ArcAut { x: u8 }
uninterp spec fn arc_view(a: ArcAut) -> AutView;
trait AutT: Sized { spec fn aview(self) -> AutView; }
impl AutT for NNFA { spec fn aview(self) -> AutView { AutView::NC(self) } }
impl AutT for CNFA { spec fn aview(self) -> AutView { AutView::C(self) } }
impl AutT for DFA { spec fn aview(self) -> AutView { AutView::D(self) } }
#[verifier::external_body]
fn arc_new<T: AutT>(t: T) -> (r: ArcAut) ensures arc_view(r) == t.aview() { unimplemented!() }

//@@ item src/ahocorasick.rs | pub struct AhoCorasick
//@@ sigsub 1 /pub struct/ => struct
//@@ sub 1 /Arc<dyn AcAutomaton>/ => ArcAut
//@@ end

//@@ item src/ahocorasick.rs | pub struct AhoCorasickBuilder
//@@ sigsub 1 /pub struct/ => struct
//@@ sub 1 /noncontiguous::Builder/ => NB
//@@ sub 1 /contiguous::Builder/ => CB
//@@ sub 1 /dfa::Builder/ => DB
//@@ end

// the options that all three builders must agree on, and the start kind the DFA builder was given
spec fn builder_inv(b: &AhoCorasickBuilder) -> bool {
    &&& b.nfa_contiguous.noncontiguous.match_kind == b.nfa_noncontiguous.match_kind
    &&& b.dfa.noncontiguous.match_kind == b.nfa_noncontiguous.match_kind
    &&& b.nfa_contiguous.noncontiguous.ascii_case_insensitive == b.nfa_noncontiguous.ascii_case_insensitive
    &&& b.dfa.noncontiguous.ascii_case_insensitive == b.nfa_noncontiguous.ascii_case_insensitive
    &&& b.nfa_contiguous.noncontiguous.prefilter == b.nfa_noncontiguous.prefilter
    &&& b.dfa.noncontiguous.prefilter == b.nfa_noncontiguous.prefilter
    &&& b.dfa.start_kind == b.start_kind
}

// the automatic choice (statement of C20's "automatic kind" rule)
spec fn auto_choice(b: &AhoCorasickBuilder, n: NNFA) -> (AutView, AhoCorasickKind) {
    let try_dfa = !(b.start_kind is Both) && nn_plen(n) <= 100;
    if try_dfa && dfa_from_spec(b.dfa, n) is Ok { (AutView::D(dfa_from_spec(b.dfa, n)->Ok_0), AhoCorasickKind::DFA) }
    else if cn_from_spec(b.nfa_contiguous, n) is Ok { (AutView::C(cn_from_spec(b.nfa_contiguous, n)->Ok_0), AhoCorasickKind::ContiguousNFA) }
    else { (AutView::NC(n), AhoCorasickKind::NoncontiguousNFA) }
}

// the reported kind is the kind of the wrapped automaton
spec fn kind_of(v: AutView) -> AhoCorasickKind {
    match v { AutView::NC(_) => AhoCorasickKind::NoncontiguousNFA, AutView::C(_) => AhoCorasickKind::ContiguousNFA, AutView::D(_) => AhoCorasickKind::DFA }
}

impl AhoCorasick {
//@@ fn src/ahocorasick.rs | pub fn kind(&self) -> AhoCorasickKind | res=r
//@@ sigsub 1 /pub fn/ => fn
//@@ header
        ensures r == self.kind
//@@ end

//@@ fn src/ahocorasick.rs | pub fn start_kind(&self) -> StartKind | res=r
//@@ sigsub 1 /pub fn/ => fn
//@@ header
        ensures r == self.start_kind
//@@ end
}

impl AhoCorasickBuilder {
//@@ fn src/ahocorasick.rs | fn build_auto( | res=r
//@@ sigsub 1 /noncontiguous::NFA/ => NNFA
//@@ sigsub 1 /Arc<dyn AcAutomaton>/ => ArcAut
//@@ sub + /Arc::new\(/ => arc_new(
//@@ header
        ensures
            arc_view(r.0) == auto_choice(self, nfa).0,
            r.1 == auto_choice(self, nfa).1,
            r.1 == kind_of(arc_view(r.0)),
            // a DFA is only chosen with the start kind of this builder's DFA builder
            (r.1 is DFA) ==> dfa_start_kind(arc_view(r.0)->D_0) == self.dfa.start_kind,
//@@ end

// R-mono: `build<I, P>(&self, patterns: I)` at the opaque pattern value
//@@ fn src/ahocorasick.rs | pub fn build<I, P>(&self, patterns: I) -> Result<AhoCorasick, BuildError> | within=impl AhoCorasickBuilder | res=r
//@@ sigsub 1 /pub fn build<I, P>\(&self, patterns: I\)/ => fn build(&self, patterns: Pats)
//@@ sigsub 1 /where\s+I: IntoIterator<Item = P>,\s+P: AsRef<\[u8\]>,/ =>
//@@ sub 1 /Arc<dyn AcAutomaton>/ => ArcAut
//@@ sub + /Arc::new\(/ => arc_new(
//@@ header
        requires builder_inv(self),
        ensures
            // the one noncontiguous NFA of these patterns and options is the source of every kind (C04)
            nn_build_spec(self.nfa_noncontiguous, patterns) is Err ==> r is Err,
            nn_build_spec(self.nfa_noncontiguous, patterns) is Ok ==> ({
                let n = nn_build_spec(self.nfa_noncontiguous, patterns)->Ok_0;
                match self.kind {
                    // C20: an explicitly requested kind is the kind that is returned, or the build fails
                    Some(AhoCorasickKind::NoncontiguousNFA) => r is Ok && arc_view(r->Ok_0.aut) == AutView::NC(n),
                    Some(AhoCorasickKind::ContiguousNFA) => (r is Ok) == (cn_from_spec(self.nfa_contiguous, n) is Ok)
                        && (r is Ok ==> arc_view(r->Ok_0.aut) == AutView::C(cn_from_spec(self.nfa_contiguous, n)->Ok_0)),
                    Some(AhoCorasickKind::DFA) => (r is Ok) == (dfa_from_spec(self.dfa, n) is Ok)
                        && (r is Ok ==> arc_view(r->Ok_0.aut) == AutView::D(dfa_from_spec(self.dfa, n)->Ok_0)),
                    // the automatic choice never fails once the NFA exists
                    None => r is Ok && arc_view(r->Ok_0.aut) == auto_choice(self, n).0,
                }
            }),
            r is Ok ==> {
                // the reported kind is the kind of the automaton inside; an explicit request is honoured
                &&& r->Ok_0.kind == kind_of(arc_view(r->Ok_0.aut))
                &&& (self.kind is Some ==> r->Ok_0.kind == self.kind->Some_0)
                // C20 / C13: the start kind is reported as given, and a DFA inside supports exactly it
                &&& r->Ok_0.start_kind == self.start_kind
                &&& (r->Ok_0.kind is DFA ==> dfa_start_kind(arc_view(r->Ok_0.aut)->D_0) == self.start_kind)
            },
//@@ end

//@@ fn src/ahocorasick.rs | pub fn match_kind(&mut self, kind: MatchKind) -> &mut AhoCorasickBuilder | within=impl AhoCorasickBuilder
//@@ sigsub 1 /pub fn/ => fn
//@@ sigsub 1 /-> &mut AhoCorasickBuilder/ =>
//@@ sub 1 /\bself\s*\}\s*\Z/ => }
//@@ header
        requires builder_inv(old(self)),
        ensures
            builder_inv(final(self)),
            final(self).nfa_noncontiguous == (NB { match_kind: kind, ..old(self).nfa_noncontiguous }),
            final(self).nfa_contiguous == (CB { noncontiguous: NB { match_kind: kind, ..old(self).nfa_contiguous.noncontiguous }, ..old(self).nfa_contiguous }),
            final(self).dfa == (DB { noncontiguous: NB { match_kind: kind, ..old(self).dfa.noncontiguous }, ..old(self).dfa }),
            final(self).kind == old(self).kind, final(self).start_kind == old(self).start_kind,
//@@ end

//@@ fn src/ahocorasick.rs | pub fn start_kind(&mut self, kind: StartKind) -> &mut AhoCorasickBuilder | within=impl AhoCorasickBuilder
//@@ sigsub 1 /pub fn/ => fn
//@@ sigsub 1 /-> &mut AhoCorasickBuilder/ =>
//@@ sub 1 /\bself\s*\}\s*\Z/ => }
//@@ header
        requires builder_inv(old(self)),
        ensures
            builder_inv(final(self)),
            final(self).start_kind == kind,
            final(self).dfa == (DB { start_kind: kind, ..old(self).dfa }),
            final(self).nfa_noncontiguous == old(self).nfa_noncontiguous, final(self).nfa_contiguous == old(self).nfa_contiguous,
            final(self).kind == old(self).kind,
//@@ end

//@@ fn src/ahocorasick.rs | pub fn ascii_case_insensitive( | within=impl AhoCorasickBuilder
//@@ sigsub 1 /pub fn/ => fn
//@@ sigsub 1 /-> &mut AhoCorasickBuilder/ =>
//@@ sub 1 /\bself\s*\}\s*\Z/ => }
//@@ header
        requires builder_inv(old(self)),
        ensures
            builder_inv(final(self)),
            final(self).nfa_noncontiguous == (NB { ascii_case_insensitive: yes, ..old(self).nfa_noncontiguous }),
            final(self).nfa_contiguous == (CB { noncontiguous: NB { ascii_case_insensitive: yes, ..old(self).nfa_contiguous.noncontiguous }, ..old(self).nfa_contiguous }),
            final(self).dfa == (DB { noncontiguous: NB { ascii_case_insensitive: yes, ..old(self).dfa.noncontiguous }, ..old(self).dfa }),
            final(self).kind == old(self).kind, final(self).start_kind == old(self).start_kind,
//@@ end

//@@ fn src/ahocorasick.rs | pub fn kind( | within=impl AhoCorasickBuilder
//@@ sigsub 1 /pub fn/ => fn
//@@ sigsub 1 /-> &mut AhoCorasickBuilder/ =>
//@@ sub 1 /\bself\s*\}\s*\Z/ => }
//@@ header
        requires builder_inv(old(self)),
        ensures
            builder_inv(final(self)),
            *final(self) == (AhoCorasickBuilder { kind: kind, ..*old(self) }),
//@@ end

//@@ fn src/ahocorasick.rs | pub fn prefilter(&mut self, yes: bool) -> &mut AhoCorasickBuilder | within=impl AhoCorasickBuilder
//@@ sigsub 1 /pub fn/ => fn
//@@ sigsub 1 /-> &mut AhoCorasickBuilder/ =>
//@@ sub 1 /\bself\s*\}\s*\Z/ => }
//@@ header
        requires builder_inv(old(self)),
        ensures
            builder_inv(final(self)),
            final(self).nfa_noncontiguous == (NB { prefilter: yes, ..old(self).nfa_noncontiguous }),
            final(self).nfa_contiguous == (CB { noncontiguous: NB { prefilter: yes, ..old(self).nfa_contiguous.noncontiguous }, ..old(self).nfa_contiguous }),
            final(self).dfa == (DB { noncontiguous: NB { prefilter: yes, ..old(self).dfa.noncontiguous }, ..old(self).dfa }),
            final(self).kind == old(self).kind, final(self).start_kind == old(self).start_kind,
//@@ end

//@@ fn src/ahocorasick.rs | pub fn dense_depth(&mut self, depth: usize) -> &mut AhoCorasickBuilder | within=impl AhoCorasickBuilder
//@@ sigsub 1 /pub fn/ => fn
//@@ sigsub 1 /-> &mut AhoCorasickBuilder/ =>
//@@ sub 1 /\bself\s*\}\s*\Z/ => }
//@@ header
        requires builder_inv(old(self)),
        ensures
            builder_inv(final(self)),
            final(self).nfa_noncontiguous == (NB { dense_depth: depth, ..old(self).nfa_noncontiguous }),
            final(self).nfa_contiguous == (CB { dense_depth: depth, ..old(self).nfa_contiguous }),
            final(self).dfa == old(self).dfa,
            final(self).kind == old(self).kind, final(self).start_kind == old(self).start_kind,
//@@ end

//@@ fn src/ahocorasick.rs | pub fn byte_classes(&mut self, yes: bool) -> &mut AhoCorasickBuilder | within=impl AhoCorasickBuilder
//@@ sigsub 1 /pub fn/ => fn
//@@ sigsub 1 /-> &mut AhoCorasickBuilder/ =>
//@@ sub 1 /\bself\s*\}\s*\Z/ => }
//@@ header
        requires builder_inv(old(self)),
        ensures
            builder_inv(final(self)),
            final(self).nfa_contiguous == (CB { byte_classes: yes, ..old(self).nfa_contiguous }),
            final(self).dfa == (DB { byte_classes: yes, ..old(self).dfa }),
            final(self).nfa_noncontiguous == old(self).nfa_noncontiguous,
            final(self).kind == old(self).kind, final(self).start_kind == old(self).start_kind,
//@@ end
}

// a fresh builder (derive(Default): every field its type's default) satisfies the invariant
proof fn lemma_default_inv(b: AhoCorasickBuilder, nb: NB, cb: CB, db: DB)
    requires
        nb.match_kind is Standard, nb.prefilter, !nb.ascii_case_insensitive,
        cb.noncontiguous.match_kind is Standard, cb.noncontiguous.prefilter, !cb.noncontiguous.ascii_case_insensitive,
        db.noncontiguous.match_kind is Standard, db.noncontiguous.prefilter, !db.noncontiguous.ascii_case_insensitive,
        db.start_kind is Unanchored,
        b.nfa_noncontiguous == nb, b.nfa_contiguous == cb, b.dfa == db, b.start_kind is Unanchored,
    ensures builder_inv(&b),
{
    //@@ canary lemma_default_inv
}

} // verus!
fn main() {}
