// UNIT l2_bisim — pure lemmas (no code): L-bisim, the lifting that property C04 needs.
// Two automata (any two representations: noncontiguous NFA, contiguous NFA, DFA, any dense
// depth / byte-class setting) related by a bisimulation R that preserves the dead/match flags and
// the match lists give *equal* abstract results: `scan`, `find_spec`, `ov_from`, `ov_list` — and
// every search API of the crate is proved (units u1_*) to return exactly these functions of the
// abstract automaton.  The bisimulation itself is established per pattern list by the bounded
// product BFS `bisim` over all 256 bytes from both start states.
use vstd::prelude::*;
verus! {

//@@ include types.inc
//@@ include automaton.inc

// R relates states of `a` and `b` reached by the same input in anchoring mode `an`
spec fn bisim<A: Automaton + ?Sized, B: Automaton + ?Sized>(a: &A, b: &B, an: Anchored, r: spec_fn(StateID, StateID) -> bool) -> bool {
    // both support the mode (or neither: then no search is possible on either)
    &&& (a.start_s(an) is Some) == (b.start_s(an) is Some)
    &&& a.start_s(an) is Some ==> r(a.start_s(an)->Some_0, b.start_s(an)->Some_0)
    // related states agree on the flags and on the whole match list, and step to related states
    &&& forall|s: StateID, t: StateID| #[trigger] r(s, t) ==> {
            &&& a.dead_s(s) == b.dead_s(t)
            &&& a.match_s(s) == b.match_s(t)
            &&& (a.match_s(s) ==> a.mlen_s(s) == b.mlen_s(t))
        }
    &&& forall|s: StateID, t: StateID, i: nat| #[trigger] r(s, t) && a.match_s(s) && i < a.mlen_s(s)
            ==> #[trigger] a.mpat_s(s, i) == b.mpat_s(t, i)
    &&& forall|s: StateID, t: StateID, x: u8| #[trigger] r(s, t) ==> r(#[trigger] a.delta(an, s, x), b.delta(an, t, x))
    // the pattern lengths are those of the same pattern list
    &&& forall|p: PatternID| #[trigger] a.plen_s(p) == b.plen_s(p)
}

proof fn lemma_mk_match_eq<A: Automaton + ?Sized, B: Automaton + ?Sized>(
    a: &A, b: &B, an: Anchored, r: spec_fn(StateID, StateID) -> bool, s: StateID, t: StateID, i: nat, at: int)
    requires bisim(a, b, an, r), r(s, t), a.match_s(s), i < a.mlen_s(s),
    ensures mk_match(a, s, i, at) == mk_match(b, t, i, at),
{
    //@@ canary lemma_mk_match_eq
    assert(a.mpat_s(s, i) == b.mpat_s(t, i));
    assert(a.plen_s(a.mpat_s(s, i)) == b.plen_s(a.mpat_s(s, i)));
}

// L-bisim, non-overlapping form (C01/C02/C09/C14 results are representation independent)
proof fn lemma_bisim_scan<A: Automaton + ?Sized, B: Automaton + ?Sized>(
    a: &A, b: &B, an: Anchored, r: spec_fn(StateID, StateID) -> bool,
    earliest: bool, hay: Seq<u8>, start: Option<int>, end: int, at: int, s: StateID, t: StateID, mat: Option<Match>)
    requires bisim(a, b, an, r), r(s, t), 0 <= at, end <= hay.len(),
             forall|s: StateID| #[trigger] a.match_s(s) ==> a.mlen_s(s) >= 1,
    ensures scan(a, an, earliest, hay, start, end, at, s, mat) == scan(b, an, earliest, hay, start, end, at, t, mat),
    decreases end - at
{
    //@@ canary lemma_bisim_scan
    if at < end {
        let s2 = a.delta(an, s, hay[at]);
        let t2 = b.delta(an, t, hay[at]);
        assert(r(s2, t2));
        if a.dead_s(s2) {
        } else if a.match_s(s2) {
            lemma_mk_match_eq(a, b, an, r, s2, t2, 0, at + 1);
            let m = mk_match(a, s2, 0, at + 1);
            if !(start is Some && m.span.start > start->Some_0) {
                if !earliest { lemma_bisim_scan(a, b, an, r, earliest, hay, start, end, at + 1, s2, t2, Some(m)); }
            } else {
                lemma_bisim_scan(a, b, an, r, earliest, hay, start, end, at + 1, s2, t2, mat);
            }
        } else {
            lemma_bisim_scan(a, b, an, r, earliest, hay, start, end, at + 1, s2, t2, mat);
        }
    }
}

proof fn lemma_bisim_find<A: Automaton + ?Sized, B: Automaton + ?Sized>(
    a: &A, b: &B, an: Anchored, r: spec_fn(StateID, StateID) -> bool,
    earliest: bool, hay: Seq<u8>, start: int, end: int)
    requires bisim(a, b, an, r), a.start_s(an) is Some, 0 <= start, end <= hay.len(),
             forall|s: StateID| #[trigger] a.match_s(s) ==> a.mlen_s(s) >= 1,
    ensures find_spec(a, an, earliest, hay, start, end) == find_spec(b, an, earliest, hay, start, end),
{
    //@@ canary lemma_bisim_find
    let s0 = a.start_s(an)->Some_0;
    let t0 = b.start_s(an)->Some_0;
    assert(r(s0, t0));
    if a.match_s(s0) {
        lemma_mk_match_eq(a, b, an, r, s0, t0, 0, start);
        let m0 = mk_match(a, s0, 0, start);
        if !earliest { lemma_bisim_scan(a, b, an, r, earliest, hay, fstart(an, start), end, start, s0, t0, Some(m0)); }
    } else {
        lemma_bisim_scan(a, b, an, r, earliest, hay, fstart(an, start), end, start, s0, t0, None);
    }
}

// the match list of related states
proof fn lemma_bisim_state_matches<A: Automaton + ?Sized, B: Automaton + ?Sized>(
    a: &A, b: &B, an: Anchored, r: spec_fn(StateID, StateID) -> bool, start: Option<int>, s: StateID, t: StateID, i: nat, at: int)
    requires bisim(a, b, an, r), r(s, t), a.match_s(s),
    ensures state_matches(a, start, s, i, at) == state_matches(b, start, t, i, at),
    decreases a.mlen_s(s) - i
{
    //@@ canary lemma_bisim_state_matches
    if i < a.mlen_s(s) {
        lemma_mk_match_eq(a, b, an, r, s, t, i, at);
        lemma_bisim_state_matches(a, b, an, r, start, s, t, i + 1, at);
    }
}

// L-bisim, overlapping form (C03 listings are representation independent)
proof fn lemma_bisim_ov<A: Automaton + ?Sized, B: Automaton + ?Sized>(
    a: &A, b: &B, an: Anchored, r: spec_fn(StateID, StateID) -> bool,
    hay: Seq<u8>, start: Option<int>, end: int, at: int, s: StateID, t: StateID)
    requires bisim(a, b, an, r), r(s, t), 0 <= at, end <= hay.len(),
    ensures ov_from(a, an, hay, start, end, at, s) == ov_from(b, an, hay, start, end, at, t),
    decreases end - at
{
    //@@ canary lemma_bisim_ov
    if at < end {
        let s2 = a.delta(an, s, hay[at]);
        let t2 = b.delta(an, t, hay[at]);
        assert(r(s2, t2));
        if a.dead_s(s2) {
        } else {
            if a.match_s(s2) { lemma_bisim_state_matches(a, b, an, r, start, s2, t2, 0, at + 1); }
            lemma_bisim_ov(a, b, an, r, hay, start, end, at + 1, s2, t2);
        }
    }
}

proof fn lemma_bisim_ov_list<A: Automaton + ?Sized, B: Automaton + ?Sized>(
    a: &A, b: &B, an: Anchored, r: spec_fn(StateID, StateID) -> bool, hay: Seq<u8>, start: int, end: int)
    requires bisim(a, b, an, r), a.start_s(an) is Some, 0 <= start, end <= hay.len(),
    ensures ov_list(a, an, hay, start, end) == ov_list(b, an, hay, start, end),
{
    //@@ canary lemma_bisim_ov_list
    let s0 = a.start_s(an)->Some_0;
    let t0 = b.start_s(an)->Some_0;
    assert(r(s0, t0));
    if a.match_s(s0) { lemma_bisim_state_matches(a, b, an, r, fstart(an, start), s0, t0, 0, start); }
    lemma_bisim_ov(a, b, an, r, hay, fstart(an, start), end, start, s0, t0);
}

} // verus!
fn main() {}
