// UNIT u3_nnfa — the low-level Automaton accessors of nfa::noncontiguous::NFA under the NFA's
// representation invariant `nnfa_wf`.  Properties: C16 (transitions never panic, a valid state
// leads to a valid state, FAIL is never handed out, dead absorbing, class predicates by id
// comparison), C19 (the failure loop terminates and its iterations are paid for by the rank of
// the state: fails + rank(result) <= rank(sid) + 1, the potential argument behind "failure
// traversals never exceed transitions"), C04 (a densified state answers exactly like its sparse
// chain), C13 (start_state never fails for an NFA).
//
// `follow_transition_sparse`, `iter_matches`-based `match_len`/`match_pattern` are written with
// `core::iter::from_fn` closures, which Verus does not accept; they stay *trusted* here with the
// contract `= sparse_lookup(..)` and are checked against the same definition by the Kani group
// `nnfa_leaf` (bounded by table size).  The invariant itself is established by the builder (out
// of reach) and is executed on real NFAs by the bounded check `repr` through hook H1.
// VERUS-RLIMIT 60
use vstd::prelude::*;
verus! {

//@@ include types.inc

impl StateID {
    // model of the macro-generated items of util/primitives.rs (A-ids)
    const ZERO: StateID = StateID(0);
    fn as_usize(&self) -> (r: usize) ensures r == self.0 as usize { self.0 as usize }
}
impl PatternID {
    fn as_usize(&self) -> (r: usize) ensures r == self.0 as usize { self.0 as usize }
}

#[derive(Clone, Copy, Debug)]
struct SmallIndex(u32);
impl SmallIndex {
//@@ fn src/util/primitives.rs | pub const fn as_usize(&self) -> usize | within=impl SmallIndex | res=r
//@@ sigsub 1 /pub const fn/ => fn
//@@ header
        ensures r == self.0 as usize
//@@ end
}

struct Prefilter { x: u8 }

//@@ item src/util/alphabet.rs | pub(crate) struct ByteClasses
//@@ sigsub 1 /pub\(crate\) struct/ => struct
//@@ end

impl ByteClasses {
//@@ fn src/util/alphabet.rs | pub(crate) fn get(&self, byte: u8) -> u8 | res=r
//@@ sigsub 1 /pub\(crate\) fn/ => fn
//@@ header
        ensures r == self.0[byte as int]
//@@ end
}

//@@ item src/util/special.rs | pub(crate) struct Special
//@@ sigsub 1 /pub\(crate\) struct/ => struct
//@@ sub 4 /pub\(crate\) / =>
//@@ end

// R-rename: noncontiguous::Match clashes with util::search::Match of the prelude
//@@ item src/nfa/noncontiguous.rs | struct Match
//@@ sigsub 1 /struct Match/ => struct NMatch
//@@ end

// R-drop-repr: `#[repr(packed)]` only affects layout
//@@ item src/nfa/noncontiguous.rs | pub(crate) struct Transition
//@@ sigsub 1 /pub\(crate\) struct/ => struct
//@@ end

//@@ item src/nfa/noncontiguous.rs | pub(crate) struct State
//@@ sigsub 1 /pub\(crate\) struct/ => struct
//@@ end

impl State {
//@@ fn src/nfa/noncontiguous.rs | pub(crate) fn fail(&self) -> StateID | within=impl State | res=r
//@@ sigsub 1 /pub\(crate\) fn/ => fn
//@@ header
        ensures r == self.fail
//@@ end
}

//@@ item src/nfa/noncontiguous.rs | pub struct NFA
//@@ sigsub 1 /pub struct/ => struct
//@@ sub 1 /Vec<Match>/ => Vec<NMatch>
//@@ end

// ---- representation invariant of a built noncontiguous NFA ------------------------------------

// a state id handed out by the Automaton interface: an index into `states` other than FAIL (1)
spec fn valid_sid(n: &NFA, s: StateID) -> bool { s.0 < n.states@.len() && s.0 != 1 }

// the sorted sparse chain of a state, walked from `link` (0 terminates a chain; entry 0 of
// `sparse` is a sentinel).  `fuel` bounds the walk: chains are acyclic in a well-formed NFA.
spec fn chain_lookup(n: &NFA, link: int, byte: u8, fuel: nat) -> StateID
    decreases fuel
{
    if fuel == 0 || link <= 0 || link >= n.sparse@.len() { StateID(1) }
    else {
        let t = n.sparse@[link];
        if byte <= t.byte { if byte == t.byte { t.next } else { StateID(1) } }
        else { chain_lookup(n, t.link.0 as int, byte, (fuel - 1) as nat) }
    }
}

// the transition function of one state, without failure links (FAIL = undefined)
spec fn sparse_lookup(n: &NFA, s: StateID, byte: u8) -> StateID {
    chain_lookup(n, n.states@[s.0 as int].sparse.0 as int, byte, n.sparse@.len())
}

// the match list of a state: the chain through `matches` from `State::matches` (0 terminates)
spec fn match_chain(n: &NFA, link: int, fuel: nat) -> Seq<PatternID>
    decreases fuel
{
    if fuel == 0 || link <= 0 || link >= n.matches@.len() { Seq::empty() }
    else { seq![n.matches@[link].pid] + match_chain(n, n.matches@[link].link.0 as int, (fuel - 1) as nat) }
}

spec fn state_matches(n: &NFA, s: StateID) -> Seq<PatternID> {
    match_chain(n, n.states@[s.0 as int].matches.0 as int, n.matches@.len())
}

// ghost potential: strictly decreasing along the failure link of every state that can fail
uninterp spec fn rank(n: &NFA, s: StateID) -> nat;

spec fn alphabet_len(n: &NFA) -> int { n.byte_classes.0[255] as int + 1 }

spec fn nnfa_wf(n: &NFA) -> bool {
    &&& n.states@.len() >= 2
    &&& n.states@.len() <= 0x7FFF_FFFF && n.dense@.len() <= 0x7FFF_FFFF && n.sparse@.len() <= 0x7FFF_FFFF
    &&& forall|b: int| 0 <= b < 256 ==> ((#[trigger] n.byte_classes.0[b]) as int) < alphabet_len(n)
    // a dense row lies inside the dense table and agrees with the sparse chain (C04)
    &&& forall|s: StateID| #[trigger] valid_sid(n, s) && n.states@[s.0 as int].dense.0 != 0 ==> {
            &&& n.states@[s.0 as int].dense.0 + alphabet_len(n) <= n.dense@.len()
            &&& forall|b: u8| (#[trigger] n.dense@[n.states@[s.0 as int].dense.0 + n.byte_classes.0[b as int]]) == sparse_lookup(n, s, b)
        }
    // a defined transition leads to a state id; it raises the rank by at most one
    &&& forall|s: StateID, b: u8| valid_sid(n, s) && (#[trigger] sparse_lookup(n, s, b)).0 != 1 ==> {
            &&& valid_sid(n, sparse_lookup(n, s, b))
            &&& rank(n, sparse_lookup(n, s, b)) <= rank(n, s) + 1
        }
    // a state with an undefined transition has a failure link to a state id of smaller rank
    &&& forall|s: StateID, b: u8| valid_sid(n, s) && (#[trigger] sparse_lookup(n, s, b)).0 == 1 ==> {
            &&& valid_sid(n, n.states@[s.0 as int].fail)
            &&& rank(n, n.states@[s.0 as int].fail) < rank(n, s)
        }
    // chains are sorted strictly by byte (hence acyclic); match links point forward; listed ids valid
    // (the hypotheses of the Kani harnesses of group nnfa_leaf)
    &&& forall|i: int| 1 <= i < n.sparse@.len() && (#[trigger] n.sparse@[i]).link.0 != 0 ==> {
            &&& n.sparse@[i].link.0 < n.sparse@.len()
            &&& n.sparse@[n.sparse@[i].link.0 as int].byte > n.sparse@[i].byte
        }
    &&& forall|i: int| 1 <= i < n.matches@.len() ==> {
            &&& (#[trigger] n.matches@[i]).link.0 == 0 || i < n.matches@[i].link.0 < n.matches@.len()
            &&& n.matches@[i].pid.0 < n.pattern_lens@.len()
        }
    // match states (ids 2 ..= max_match_id) have a non-empty match list
    &&& forall|s: StateID| #[trigger] valid_sid(n, s) && 0 < s.0 <= n.special.max_match_id.0 ==> state_matches(n, s).len() >= 1
    // the dead state (id 0) is absorbing
    &&& forall|b: u8| (#[trigger] sparse_lookup(n, StateID(0), b)).0 == 0
    &&& valid_sid(n, n.special.start_unanchored_id) && valid_sid(n, n.special.start_anchored_id)
    &&& n.special.start_unanchored_id.0 != 0 && n.special.start_anchored_id.0 != 0
    &&& n.special.max_match_id.0 <= n.special.max_special_id.0
}

// C16 "listed pattern ids are valid": every element of a match chain is a pattern id
proof fn lemma_chain_pids_valid(n: &NFA, link: int, fuel: nat, k: int)
    requires nnfa_wf(n), 0 <= k < match_chain(n, link, fuel).len(),
    ensures match_chain(n, link, fuel)[k].0 < n.pattern_lens@.len(),
    decreases fuel
{
    if fuel == 0 || link <= 0 || link >= n.matches@.len() {
    } else if k > 0 {
        lemma_chain_pids_valid(n, n.matches@[link].link.0 as int, (fuel - 1) as nat, k - 1);
    }
}

// the transition function with failure links (what `next_state` computes)
spec fn nn_next(n: &NFA, anchored: Anchored, s: StateID, byte: u8) -> StateID
    decreases rank(n, s) when nnfa_wf(n) && valid_sid(n, s)
{
    let next = sparse_lookup(n, s, byte);
    if next.0 != 1 { next }
    else if anchored is Yes { StateID(0) }
    else { nn_next(n, anchored, n.states@[s.0 as int].fail, byte) }
}

impl NFA {
// R-newUnchecked: `StateID::new_unchecked(k)` -> `StateID(k)` (body of the macro-generated const fn)
//@@ item src/nfa/noncontiguous.rs | pub(crate) const DEAD: StateID
//@@ sigsub 1 /pub\(crate\) const/ => const
//@@ sigsub 1 /StateID::new_unchecked\((\d+)\)/ => StateID(\1)
//@@ end
//@@ item src/nfa/noncontiguous.rs | pub(crate) const FAIL: StateID
//@@ sigsub 1 /pub\(crate\) const/ => const
//@@ sigsub 1 /StateID::new_unchecked\((\d+)\)/ => StateID(\1)
//@@ end

// trusted: iterator closure (core::iter::from_fn); checked by Kani group nnfa_leaf (bounded)
#[verifier::external_body]
fn follow_transition_sparse(&self, sid: StateID, byte: u8) -> (r: StateID)
    requires nnfa_wf(self), valid_sid(self, sid),
    ensures r == sparse_lookup(self, sid, byte),
{ unimplemented!() }

// trusted: `self.iter_matches(sid).count()` / `.nth(index).unwrap()` over a from_fn closure;
// checked by Kani group nnfa_leaf (bounded)
#[verifier::external_body]
fn match_len(&self, sid: StateID) -> (r: usize)
    requires nnfa_wf(self), valid_sid(self, sid),
    ensures r == state_matches(self, sid).len(),
{ unimplemented!() }

#[verifier::external_body]
fn match_pattern(&self, sid: StateID, index: usize) -> (r: PatternID)
    requires nnfa_wf(self), valid_sid(self, sid), index < state_matches(self, sid).len(),
    ensures r == state_matches(self, sid)[index as int],
{ unimplemented!() }

// R-idx: `self.states[sid]` -> `self.states[sid.as_usize()]` (body of `Index<StateID> for Vec<T>`)
//@@ fn src/nfa/noncontiguous.rs | fn follow_transition(&self, sid: StateID, byte: u8) -> StateID | res=r
//@@ sub 1 /self\.states\[sid\]/ => self.states[sid.as_usize()]
//@@ header
        requires nnfa_wf(self), valid_sid(self, sid),
        ensures
            // C04: the dense row and the sparse chain give the same answer
            r == sparse_lookup(self, sid, byte),
//@@ end

//@@ fn src/nfa/noncontiguous.rs | fn start_state(&self, anchored: Anchored) -> Result<StateID, MatchError> | within=unsafe impl Automaton for NFA | res=r
//@@ header
        requires nnfa_wf(self),
        ensures
            // C13: an NFA supports both anchor modes
            r is Ok, valid_sid(self, r->Ok_0), r->Ok_0.0 != 0,
            r->Ok_0 == (if anchored is Yes { self.special.start_anchored_id } else { self.special.start_unanchored_id }),
//@@ end

//@@ fn src/nfa/noncontiguous.rs | fn next_state( | within=unsafe impl Automaton for NFA | res=r
//@@ sub 1 /self\.states\[sid\]/ => self.states[sid.as_usize()]
//@@ sigsub 1 /mut sid: StateID/ => sid0: StateID
//@@ header
        requires nnfa_wf(self), valid_sid(self, sid0),
        ensures
            // C16: never panics, never hands out FAIL, the result is a state id
            valid_sid(self, r),
            r == nn_next(self, anchored, sid0, byte),
            // the dead state is absorbing
            sid0.0 == 0 ==> r.0 == 0,
            // an anchored walk never follows a failure link
//@@ before /loop \{/
        let mut sid = sid0;
        let ghost mut fails: nat = 0;
//@@ loop 1
            invariant
                nnfa_wf(self), valid_sid(self, sid),
                nn_next(self, anchored, sid, byte) == nn_next(self, anchored, sid0, byte),
                // [C19] the potential argument: every failure step is paid for by a rank decrease
                fails + rank(self, sid) <= rank(self, sid0),
                anchored is Yes ==> fails == 0,
                sid0.0 == 0 ==> sid.0 == 0,
            decreases rank(self, sid),
//@@ before /return next;/
                assert(fails + rank(self, next) <= rank(self, sid0) + 1); // [C19] failure steps are paid for by rank
//@@ before /sid = self\.states/
            proof { fails = fails + 1; }
//@@ end

//@@ fn src/nfa/noncontiguous.rs | fn is_special(&self, sid: StateID) -> bool | within=unsafe impl Automaton for NFA | res=r
//@@ header
        ensures r == (sid.0 <= self.special.max_special_id.0)
//@@ end

//@@ fn src/nfa/noncontiguous.rs | fn is_dead(&self, sid: StateID) -> bool | within=unsafe impl Automaton for NFA | res=r
//@@ header
        ensures r == (sid.0 == 0)
//@@ end

//@@ fn src/nfa/noncontiguous.rs | fn is_match(&self, sid: StateID) -> bool | within=unsafe impl Automaton for NFA | res=r
//@@ header
        ensures r == (sid.0 != 0 && sid.0 <= self.special.max_match_id.0),
                // C16: dead and match states are special
                nnfa_wf(self) && (r || sid.0 == 0) ==> sid.0 <= self.special.max_special_id.0,
//@@ end

//@@ fn src/nfa/noncontiguous.rs | fn is_start(&self, sid: StateID) -> bool | within=unsafe impl Automaton for NFA | res=r
//@@ header
        ensures r == (sid.0 == self.special.start_unanchored_id.0 || sid.0 == self.special.start_anchored_id.0)
//@@ end

//@@ fn src/nfa/noncontiguous.rs | fn match_kind(&self) -> MatchKind | within=unsafe impl Automaton for NFA | res=r
//@@ header
        ensures r == self.match_kind
//@@ end

//@@ fn src/nfa/noncontiguous.rs | fn patterns_len(&self) -> usize | within=unsafe impl Automaton for NFA | res=r
//@@ header
        ensures r == self.pattern_lens@.len()
//@@ end

// R-idx: `self.pattern_lens[pid]` -> `self.pattern_lens[pid.as_usize()]` (body of `Index<PatternID>`)
//@@ fn src/nfa/noncontiguous.rs | fn pattern_len(&self, pid: PatternID) -> usize | within=unsafe impl Automaton for NFA | res=r
//@@ sub 1 /self\.pattern_lens\[pid\]/ => self.pattern_lens[pid.as_usize()]
//@@ header
        requires pid.0 < self.pattern_lens@.len(),
        ensures r == self.pattern_lens@[pid.0 as int].0 as usize
//@@ end

//@@ fn src/nfa/noncontiguous.rs | fn min_pattern_len(&self) -> usize | within=unsafe impl Automaton for NFA | res=r
//@@ header
        ensures r == self.min_pattern_len
//@@ end

//@@ fn src/nfa/noncontiguous.rs | fn max_pattern_len(&self) -> usize | within=unsafe impl Automaton for NFA | res=r
//@@ header
        ensures r == self.max_pattern_len
//@@ end
}

} // verus!
fn main() {}
