// UNIT u6_gates — the start-kind gate and the top-level entry points that route through it
// (src/ahocorasick.rs).  Properties: C13 (a), C14 (is_match = earliest search).  Engine: Verus.
// R-dyn: the field `aut: Arc<dyn AcAutomaton>` is taken as a generic `A: AutomatonS` (the
// trait-object forwarders of automaton.rs / ahocorasick.rs are one-line `(**self).f(..)` bodies).
use vstd::prelude::*;
verus! {

//@@ include types.inc
//@@ include automaton.inc

#[derive(Clone, Copy, PartialEq, Eq, Debug)]
//@@ item src/util/search.rs | pub enum StartKind
//@@ sigsub 1 /pub enum/ => enum
//@@ end

#[derive(Clone, Copy, PartialEq, Eq, Debug)]
//@@ item src/ahocorasick.rs | pub enum AhoCorasickKind
//@@ sigsub 1 /pub enum/ => enum
//@@ end

// C13 (a): the anchoring mode is covered by the start kind
spec fn covered(have: StartKind, want: Anchored) -> bool {
    match have {
        StartKind::Both => true,
        StartKind::Unanchored => want is No,
        StartKind::Anchored => want is Yes,
    }
}

//@@ fn src/ahocorasick.rs | fn enforce_anchored_consistency(
//@@ header
    ensures (res is Ok) == covered(have, want),
//@@ end

// R-dyn (see above)
//@@ item src/ahocorasick.rs | pub struct AhoCorasick
//@@ sigsub 1 /pub struct AhoCorasick/ => struct AhoCorasick<A: AutomatonS>
//@@ sub 1 /aut: Arc<dyn AcAutomaton>,/ => aut: A,
//@@ end

impl<A: AutomatonS> AhoCorasick<A> {
// R-mono: `I: Into<Input<'h>>` at I = Input<'h> (`Into` is the identity)
//@@ fn src/ahocorasick.rs | pub fn try_find<'h, I: Into<Input<'h>>>(
//@@ sigsub 1 /pub fn try_find<'h, I: Into<Input<'h>>>\(/ => fn try_find<'h>(
//@@ sigsub 1 /input: I,/ => input: Input<'h>,
//@@ sub 1 /let input = input\.into\(\);/ =>
//@@ header
        requires aut_wf(&self.aut), input.wf(),
        ensures
            // rejected iff the gate rejects or the automaton has no start state for the mode
            !covered(self.start_kind, input.anchored) ==> res is Err,
            covered(self.start_kind, input.anchored) ==> try_find_post(&self.aut, &input, res),
//@@ end

//@@ fn src/ahocorasick.rs | pub fn try_find_overlapping<'h, I: Into<Input<'h>>>(
//@@ sigsub 1 /pub fn try_find_overlapping<'h, I: Into<Input<'h>>>\(/ => fn try_find_overlapping<'h>(
//@@ sigsub 1 /input: I,/ => input: Input<'h>,
//@@ sub 1 /let input = input\.into\(\);/ =>
//@@ header
        requires aut_wf(&self.aut), input.wf(), ov_state_inv(&self.aut, &input, *old(state)),
        ensures
            !covered(self.start_kind, input.anchored) ==> res is Err && *final(state) == *old(state),
            covered(self.start_kind, input.anchored) ==> ov_post(&self.aut, &input, *old(state), *final(state), res),
//@@ end

// C14: is_match is the earliest search through the same gate (R-mono as above; `earliest(true)`
// is the builder-style setter of Input, modelled by the struct update it performs)
//@@ fn src/ahocorasick.rs | pub fn is_match<'h, I: Into<Input<'h>>>(&self, input: I) -> bool | res=r
//@@ sigsub 1 /pub fn is_match<'h, I: Into<Input<'h>>>\(&self, input: I\)/ => fn is_match<'h>(&self, input: Input<'h>)
//@@ sub 1 /input\.into\(\)\.earliest\(true\)/ => Input { earliest: true, ..input }
//@@ header
        requires
            aut_wf(&self.aut), input.wf(),
            // the infallible API panics when the request is rejected: not rejected is its domain
            covered(self.start_kind, input.anchored),
            input.span.start > input.span.end || self.aut.start_s(input.anchored) is Some,
        ensures
            // C14: true iff the earliest search through the same gate finds something
            exists|o: Option<Match>| #[trigger] try_find_post(&self.aut, &(Input { earliest: true, ..input }), Ok(o)) && r == (o is Some),
//@@ end
}

} // verus!
fn main() {}
