// UNIT u1_iter — the non-overlapping iterator, the overlapping iterator and their constructors
// (src/automaton.rs).  Properties: C01 C02 C03 C09 C10 C13 C15.  Engine: Verus.
use vstd::prelude::*;
verus! {

//@@ include types.inc
//@@ include automaton.inc
//@@ include lemmas_scan.inc

//@@ item src/automaton.rs | pub struct FindIter<'a, 'h, A>
//@@ sigsub 1 /pub struct/ => struct
//@@ end

// one search with the iterator's current input, as a relation on the result
spec fn search_rel<A: AutomatonS>(aut: &A, input: Input<'_>, r: Option<Match>) -> bool {
    try_find_post(aut, &input, Ok(r))
}

spec fn with_start<'h>(input: Input<'h>, start: usize) -> Input<'h> {
    Input { span: Span { start: start, end: input.span.end }, ..input }
}

// C01/C02/C09: one step of the non-overlapping iterator, taken from the property statement:
// repeat the search from the end of the previous match; an empty match is never yielded at
// the offset where the previous match ended (the search is repeated one byte later instead).
spec fn iter_step<A: AutomatonS>(aut: &A, old_input: Input<'_>, old_last: Option<usize>,
                                 new_input: Input<'_>, new_last: Option<usize>, r: Option<Match>) -> bool {
    exists|r1: Option<Match>| #[trigger] search_rel(aut, old_input, r1) && (match r1 {
        None => r is None,
        Some(m1) =>
            if m1.span.start >= m1.span.end && old_last == Some(m1.span.end) {
                exists|r2: Option<Match>| #[trigger] search_rel(aut, with_start(old_input, (old_input.span.start + 1) as usize), r2)
                    && (match r2 {
                        None => r is None,
                        Some(m2) => r == Some(m2) && new_input == with_start(old_input, m2.span.end) && new_last == Some(m2.span.end),
                    })
            } else {
                r == Some(m1) && new_input == with_start(old_input, m1.span.end) && new_last == Some(m1.span.end)
            },
    })
}

impl<'a, 'h, A: AutomatonS> FindIter<'a, 'h, A> {
    spec fn inv(&self) -> bool {
        &&& aut_wf(self.aut)
        &&& self.input.wf()
        // C13: an iterator that was constructed never fails later
        &&& self.aut.start_s(self.input.anchored) is Some
    }

//@@ fn src/automaton.rs | fn new( | within=impl<'a, 'h, A: Automaton> FindIter<'a, 'h, A>
//@@ header
        requires aut_wf(aut), input.wf(),
        ensures
            (res is Ok) == (aut.start_s(input.anchored) is Some),
            res is Ok ==> res->Ok_0.aut == aut && res->Ok_0.input == input
                && res->Ok_0.last_match_end is None && res->Ok_0.inv(),
//@@ end

//@@ fn src/automaton.rs | fn search(&self) -> Option<Match> | res=r
//@@ header
        requires self.inv(),
        ensures search_rel(self.aut, self.input, r),
//@@ end

//@@ fn src/automaton.rs | fn handle_overlapping_empty_match( | res=r
//@@ header
        requires
            old(self).inv(), m.span.start >= m.span.end,
            old(self).input.span.start <= old(self).input.span.end,
        ensures
            final(self).inv(), final(self).aut == old(self).aut,
            final(self).last_match_end == old(self).last_match_end,
            final(self).input.span.end == old(self).input.span.end,
            if Some(m.span.end) == old(self).last_match_end {
                &&& final(self).input == with_start(old(self).input, (old(self).input.span.start + 1) as usize)
                &&& search_rel(final(self).aut, final(self).input, r)
                &&& (r is Some ==> final(self).input.span.start <= final(self).input.span.end
                        && match_in(final(self).aut, r->Some_0, final(self).input.span.start as int, final(self).input.span.end as int))
            } else {
                r == Some(m) && final(self).input == old(self).input
            },
//@@ after /m = self\.search\(\)\?;/
            proof { lemma_try_find_bounds(self.aut, &self.input, Some(m)); }
//@@ end

// `Iterator::next` of FindIter (the trait impl header is not reproduced: Verus has no spec for
// a user impl of core::iter::Iterator; the method body is the one from /repo)
//@@ fn src/automaton.rs | fn next(&mut self) -> Option<Match> | within=impl<'a, 'h, A: Automaton> Iterator for FindIter<'a, 'h, A> | res=r
//@@ header
        requires old(self).inv(),
        ensures
            final(self).inv(), final(self).aut == old(self).aut,
            iter_step(old(self).aut, old(self).input, old(self).last_match_end,
                      final(self).input, final(self).last_match_end, r),
            // C10/C15: yielded matches lie in the original span and the iterator advances
            r is Some ==> old(self).input.span.start <= r->Some_0.span.start <= r->Some_0.span.end
                        <= old(self).input.span.end && r->Some_0.pattern.0 < old(self).aut.npat_s(),
            r is None ==> final(self).input.span.end == old(self).input.span.end,
//@@ after /let mut m = self\.search\(\)\?;/
        proof { lemma_try_find_bounds(self.aut, &self.input, Some(m)); }
//@@ end
}

} // verus!
fn main() {}
