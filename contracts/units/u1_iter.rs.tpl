// UNIT u1_iter — the non-overlapping iterator, the overlapping iterator and their constructors
// (src/automaton.rs).  Properties: C01 C02 C03 C09 C10 C13 C15.  Engine: Verus.
use vstd::prelude::*;
verus! {

//@@ include types.inc
//@@ include automaton.inc
//@@ include lemmas_scan.inc

//@@ include finditer.inc STUB=0

} // verus!
fn main() {}
