// UNIT u1_overlap — resumable overlapping search (src/automaton.rs)
// Properties: C03 C05 C09 C10 C13 C15 C19.  Engine: Verus.
use vstd::prelude::*;
verus! {

//@@ include types.inc
//@@ include automaton.inc
//@@ include lemmas_ov.inc

//@@ fn src/automaton.rs | fn get_match<A: Automaton + ?Sized>( | res=m
//@@ header
    requires aut_wf(aut), aut.valid_s(sid), aut.match_s(sid), index < aut.mlen_s(sid),
             aut.depth_s(sid) <= at,
    ensures m == mk_match(aut, sid, index as nat, at as int)
//@@ end

#[verifier::loop_isolation(false)]
//@@ fn src/automaton.rs | fn get_overlapping_match<A: Automaton + ?Sized>( | res=r | nocanary
//@@ header
    requires aut_wf(aut), aut.valid_s(sid), aut.match_s(sid), aut.depth_s(sid) <= at,
    ensures
        // C09: the next match of this state that an (anchored) search may report
        r is None ==> state_matches(aut, fstart(input.anchored, input.span.start as int), sid, index as nat, at as int).len() == 0,
        r is Some ==> index < r->Some_0.0 <= aut.mlen_s(sid)
            && state_matches(aut, fstart(input.anchored, input.span.start as int), sid, index as nat, at as int)
                == seq![r->Some_0.1] + state_matches(aut, fstart(input.anchored, input.span.start as int), sid, r->Some_0.0 as nat, at as int),
//@@ before /let len = aut\.match_len\(sid\);/
    let ghost index0 = index;
//@@ loop 1
        invariant
            aut_wf(aut), aut.valid_s(sid), aut.match_s(sid), aut.depth_s(sid) <= at,
            len == aut.mlen_s(sid), index0 <= index,
            state_matches(aut, fstart(input.anchored, input.span.start as int), sid, index0 as nat, at as int)
                == state_matches(aut, fstart(input.anchored, input.span.start as int), sid, index as nat, at as int),
        decreases len - index,
//@@ after /index (?:\+= 1|= index \+ 1);/
        proof {
            lemma_state_matches_unfold(aut, fstart(input.anchored, input.span.start as int), sid, (index - 1) as nat, at as int);
        }
//@@ before /None\s*\}\s*$/
    proof {
        lemma_state_matches_end(aut, fstart(input.anchored, input.span.start as int), sid, index as nat, at as int);
    }
//@@ end

impl OverlappingState {
//@@ fn src/automaton.rs | pub fn start() -> OverlappingState | res=r
//@@ sigsub 1 /pub fn/ => fn
//@@ header
        ensures r.mat is None, r.id is None, r.at == 0, r.next_match_index is None
//@@ end

//@@ fn src/automaton.rs | pub fn get_match(&self) -> Option<Match> | res=r
//@@ sigsub 1 /pub fn/ => fn
//@@ header
        ensures r == self.mat
//@@ end
}

// C19: ghost counter of next_state calls within one call of the stepper
//@@ fn src/automaton.rs | fn try_find_overlapping_fwd_imp<A: Automaton + ?Sized>(
//@@ sub 1 /sid = aut\.next_state\(/ => proof { steps = steps + 1; } sid = aut.next_state(
//@@ sub 1 /while state\.at < input\.end\(\) \{/ => let ghost mut steps: int = 0; let ghost at0: int = state.at as int; while state.at < input.end() {
//@@ header
    requires
        aut_wf(aut), input.wf(), input.span.start <= input.span.end,
        ov_state_inv(aut, input, *old(state)),
        old(state).mat is None,
        aut.kind_s() is Standard,
        pre is Some ==> input.anchored is No && aut.has_pre() && *(pre->Some_0) == aut.pre_s(),
    ensures
        ov_post(aut, input, *old(state), *final(state), res),
//@@ loop 1
        invariant
            aut_wf(aut), input.wf(), input.span.start <= state.at <= input.span.end,
            aut.kind_s() is Standard,
            steps <= state.at - at0, // [C19] one transition per byte consumed by this call
            pre is Some ==> input.anchored is No && aut.has_pre() && *(pre->Some_0) == aut.pre_s(),
            aut.valid_s(sid),
            aut.dead_s(sid) || aut.depth_s(sid) <= state.at - input.span.start,
            input.anchored is Yes ==> aut.areach_s(sid),
            input.anchored is Yes && state.at > input.span.start ==> aut.dead_s(sid) || !aut.startst_s(sid),
            state.mat is None, state.next_match_index is None,
            old(state).id is None ==> aut.start_s(input.anchored) is Some,
            ov_remaining(aut, input, *old(state))
                == ov_from(aut, input.anchored, input.haystack@, fstart(input.anchored, input.span.start as int), input.span.end as int,
                           state.at as int, sid),
        decreases input.span.end - state.at,
//@@ before /state\.next_match_index = Some\(i \+ 1\);/
                    proof {
                        lemma_state_matches_unfold(aut, fstart(input.anchored, input.span.start as int), sid, i as nat, input.span.start as int);
                        lemma_seq_assoc(mk_match(aut, sid, i as nat, input.span.start as int),
                            state_matches(aut, fstart(input.anchored, input.span.start as int), sid, (i + 1) as nat, input.span.start as int),
                            ov_from(aut, input.anchored, input.haystack@, fstart(input.anchored, input.span.start as int), input.span.end as int, input.span.start as int, sid));
                    }
//@@ before /state\.at = input\.start\(\);/
            proof {
                let i0: nat = match state.next_match_index { Some(i) => i as nat, None => 0 };
                if aut.match_s(sid) {
                    lemma_state_matches_end(aut, fstart(input.anchored, input.span.start as int), sid, i0, input.span.start as int);
                }
                lemma_empty_left(ov_from(aut, input.anchored, input.haystack@, fstart(input.anchored, input.span.start as int), input.span.end as int, input.span.start as int, sid));
            }
//@@ after /get_overlapping_match\(aut, input, sid, i, state\.at \+ 1\)\s*\{/
                    proof {
                        lemma_seq_assoc(m, state_matches(aut, fstart(input.anchored, input.span.start as int), sid, next as nat, state.at + 1),
                            ov_from(aut, input.anchored, input.haystack@, fstart(input.anchored, input.span.start as int), input.span.end as int, state.at + 1, sid));
                    }
//@@ before /state\.at \+= 1;\s*state\.next_match_index = None;/
                proof {
                    lemma_empty_left(ov_from(aut, input.anchored, input.haystack@, fstart(input.anchored, input.span.start as int), input.span.end as int, state.at + 1, sid));
                }
//@@ after /get_overlapping_match\(aut, input, sid, 0, state\.at \+ 1\)\s*\{/
                    proof {
                        lemma_seq_assoc(m, state_matches(aut, fstart(input.anchored, input.span.start as int), sid, next as nat, state.at + 1),
                            ov_from(aut, input.anchored, input.haystack@, fstart(input.anchored, input.span.start as int), input.span.end as int, state.at + 1, sid));
                    }
//@@ after /let span = [^;]*;/
                proof {
                    // C19: the prefilter is consulted from the current position only
                    assert(span.start == state.at && span.end == input.span.end); // [C19] [C10]
                }
//@@ before /let span = [^;]*;/
                proof {
                    assert(aut.startst_s(sid));
                    assert(aut.start_s(Anchored::No) == Some(sid));
                    assert(input.anchored is No);
                    assert(ov_remaining(aut, input, *old(state))
                        == ov_from(aut, Anchored::No, input.haystack@, None, input.span.end as int, state.at + 1, sid));
                }
//@@ before /state\.at \+= 1;\s*\}\s*state\.id = Some\(sid\);/
        proof {
            lemma_empty_left(ov_from(aut, input.anchored, input.haystack@, fstart(input.anchored, input.span.start as int), input.span.end as int, state.at + 1, sid));
        }
//@@ end

//@@ fn src/automaton.rs | fn try_find_overlapping_fwd<A: Automaton + ?Sized>(
//@@ header
    requires aut_wf(aut), input.wf(), ov_state_inv(aut, input, *old(state)),
    ensures ov_post(aut, input, *old(state), *final(state), res),
//@@ end

// ---- the overlapping iterator (C03: the listing is what repeated stepping yields; C13: anchored
// overlapping iteration and non-standard kinds are rejected at construction, never later) ------
//@@ item src/automaton.rs | pub struct FindOverlappingIter<'a, 'h, A>
//@@ sigsub 1 /pub struct/ => struct
//@@ end

impl<'a, 'h, A: AutomatonS> FindOverlappingIter<'a, 'h, A> {
    spec fn inv(&self) -> bool {
        &&& aut_wf(self.aut) && self.input.wf()
        &&& self.aut.kind_s() is Standard
        &&& self.input.anchored is No
        &&& self.aut.start_s(Anchored::No) is Some
        &&& ov_state_inv(self.aut, &self.input, self.state)
    }
    // everything the iterator has still to yield
    spec fn remaining(&self) -> Seq<Match> {
        if self.input.span.start > self.input.span.end { Seq::empty() } else { ov_remaining(self.aut, &self.input, self.state) }
    }

// `Iterator::next` of FindOverlappingIter (method body from /repo)
//@@ fn src/automaton.rs | fn next(&mut self) -> Option<Match> | within=impl<'a, 'h, A: Automaton> Iterator for FindOverlappingIter<'a, 'h, A> | res=r
//@@ header
        requires old(self).inv(),
        ensures
            final(self).inv(), final(self).aut == old(self).aut, final(self).input == old(self).input,
            // C03: the next element of the listing, or the end of it (and then nothing for ever)
            r is Some ==> old(self).remaining() == seq![r->Some_0] + final(self).remaining(),
            r is None ==> old(self).remaining().len() == 0 && final(self).remaining().len() == 0,
//@@ end
}

// R-self: the provided trait method `Automaton::try_find_overlapping_iter` as a free function
//@@ fn src/automaton.rs | fn try_find_overlapping_iter<'a, 'h>(
//@@ sigsub 1 /fn try_find_overlapping_iter<'a, 'h>\(\s*&'a self,/ => fn try_find_overlapping_iter<'a, 'h, A: AutomatonS>(aut: &'a A,
//@@ sigsub 1 /FindOverlappingIter<'a, 'h, Self>/ => FindOverlappingIter<'a, 'h, A>
//@@ sigsub 1 /where\s+Self: Sized,/ =>
//@@ sub 4 /\bself\b/ => aut
//@@ header
    requires aut_wf(aut), input.wf(),
    ensures
        // C13 (b), (c): rejected iff the kind is not standard, the input is anchored, or the
        // unanchored mode has no start state
        (res is Ok) == (aut.kind_s() is Standard && input.anchored is No && aut.start_s(Anchored::No) is Some),
        res is Ok ==> res->Ok_0.inv() && res->Ok_0.aut == aut && res->Ok_0.input == input
            // C03: a fresh iterator has the whole listing ahead of it
            && (input.span.start <= input.span.end ==> res->Ok_0.remaining()
                    == ov_list(aut, Anchored::No, input.haystack@, input.span.start as int, input.span.end as int)),
//@@ end

} // verus!
fn main() {}
