// UNIT u1_recipe — the search routine printed in the documentation of the `Automaton` trait
// (src/automaton.rs, doc comment "# Example"), cut out of the doc comment.  Property C16: a
// caller-written unanchored loop that follows the documented recipe returns the same match as the
// built-in search.  Engine: Verus.
use vstd::prelude::*;
verus! {

//@@ include types.inc
//@@ include automaton.inc

// R-closure: the recipe's local closure `get_match = |sid, at| { .. }` is called at two places;
// Verus cannot give a contract to a closure that captures `aut`, so the closure is inlined as the
// (identical) free function `get_match` of automaton.rs, extracted below.
//@@ fn src/automaton.rs | fn get_match<A: Automaton + ?Sized>( | res=m
//@@ header
    requires aut_wf(aut), aut.valid_s(sid), aut.match_s(sid), index < aut.mlen_s(sid),
             aut.depth_s(sid) <= at,
    ensures m == mk_match(aut, sid, index as nat, at as int)
//@@ end

//@@ fn src/automaton.rs | fn find<A: Automaton>( | doc
//@@ sigsub 1 /aut: A,/ => aut: &A,
//@@ sub 1 /let get_match = \|sid, at\| \{\s*let pid = aut\.match_pattern\(sid, 0\);\s*let len = aut\.pattern_len\(pid\);\s*Match::new\(pid, \(at - len\)\.\.at\)\s*\};/ =>
//@@ sub 1 /mat = Some\(get_match\(sid, at\)\);/ => mat = Some(get_match(aut, sid, 0, at));
//@@ sub 1 /mat = Some\(get_match\(sid, at \+ 1\)\);/ => mat = Some(get_match(aut, sid, 0, at + 1));
//@@ header
    requires aut_wf(aut), haystack@.len() < usize::MAX, !aut.has_pre(),
    ensures
        (res is Ok) == (aut.start_s(Anchored::No) is Some),
        // the same answer as the built-in search (try_find_fwd, unit u1_search) on the whole
        // haystack: find_spec with earliest exactly for standard semantics
        res is Ok ==> res->Ok_0 == find_spec(aut, Anchored::No, aut.kind_s() is Standard, haystack@, 0, haystack@.len() as int),
//@@ loop 1
        invariant
            aut_wf(aut), at <= haystack@.len() < usize::MAX, !aut.has_pre(),
            aut.start_s(Anchored::No) is Some,
            aut.valid_s(sid), aut.depth_s(sid) <= at,
            aut.kind_s() is Standard ==> mat is None,
            find_spec(aut, Anchored::No, aut.kind_s() is Standard, haystack@, 0, haystack@.len() as int)
                == scan(aut, Anchored::No, aut.kind_s() is Standard, haystack@, None, haystack@.len() as int, at as int, sid, mat),
        decreases haystack@.len() - at,
//@@ end

} // verus!
fn main() {}
