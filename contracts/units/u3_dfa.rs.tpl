// UNIT u3_dfa — the low-level Automaton accessors of dfa::DFA (src/dfa.rs) under the DFA's
// representation invariant.  Properties: C16 (transitions never panic, reachable states valid,
// dead absorbing, class predicates by id comparison, match lists), C13 (start_state fails exactly
// for the unsupported mode), C19 (a DFA transition is one table lookup, no loop), C04.
// The invariant `dfa_wf` itself is established by the DFA builder (out of reach) and is executed
// on real DFAs by the bounded check `repr` through hook H1.
use vstd::prelude::*;
verus! {

//@@ include types.inc

impl StateID {
    // model of the macro-generated accessors of util/primitives.rs (A-ids)
    fn as_u32(&self) -> (r: u32) ensures r == self.0 { self.0 }
    fn as_usize(&self) -> (r: usize) ensures r == self.0 as usize { self.0 as usize }
}
impl PatternID {
    fn as_usize(&self) -> (r: usize) ensures r == self.0 as usize { self.0 as usize }
}

#[derive(Clone, Copy, Debug)]
struct SmallIndex(u32);
impl SmallIndex {
//@@ fn src/util/primitives.rs | pub const fn as_usize(&self) -> usize | within=impl SmallIndex | res=r
//@@ sigsub 1 /pub const fn/ => fn
//@@ header
        ensures r == self.0 as usize
//@@ end
}

// model of util/int.rs `impl U32 for u32 { fn as_usize }` (release branch `self as usize`;
// the debug branch is `usize::try_from(self).expect(..)`, equal on 64-bit targets)
trait U32 { fn as_usize(self) -> usize; }
impl U32 for u32 {
    fn as_usize(self) -> (r: usize) ensures r == self as usize { self as usize }
}

struct Prefilter { x: u8 }

//@@ item src/util/alphabet.rs | pub(crate) struct ByteClasses
//@@ sigsub 1 /pub\(crate\) struct/ => struct
//@@ end

impl ByteClasses {
//@@ fn src/util/alphabet.rs | pub(crate) fn get(&self, byte: u8) -> u8 | res=r
//@@ sigsub 1 /pub\(crate\) fn/ => fn
//@@ header
        ensures r == self.0[byte as int]
//@@ end
}

//@@ item src/util/special.rs | pub(crate) struct Special
//@@ sigsub 1 /pub\(crate\) struct/ => struct
//@@ sub 4 /pub\(crate\) / =>
//@@ end

//@@ item src/dfa.rs | pub struct DFA
//@@ sigsub 1 /pub struct/ => struct
//@@ end

// ---- representation invariant of a built DFA -------------------------------------------------
spec fn stride(d: &DFA) -> int { vstd::arithmetic::power2::pow2(d.stride2 as nat) as int }

// a state id: a multiple of the stride inside the table, other than the row of the FAIL sentinel
// (index 1), which is copied from the NFA layout and is never the target of a transition
spec fn valid_sid(d: &DFA, s: StateID) -> bool {
    s.0 as int % stride(d) == 0 && s.0 + stride(d) <= d.trans@.len() && s.0 != stride(d)
}

spec fn match_sid(d: &DFA, s: StateID) -> bool { valid_sid(d, s) && 0 < s.0 <= d.special.max_match_id.0 }

spec fn dfa_wf(d: &DFA) -> bool {
    &&& d.stride2 <= 9
    &&& d.trans@.len() <= 0x7FFF_FFFF
    &&& d.trans@.len() >= 2 * stride(d)
    // byte classes fit in a row
    &&& forall|b: int| 0 <= b < 256 ==> (#[trigger] d.byte_classes.0[b]) < stride(d)
    // every table entry is a state id
    &&& forall|i: int| 0 <= i < d.trans@.len() ==> valid_sid(d, #[trigger] d.trans@[i])
    // the dead state (id 0) is absorbing
    &&& forall|i: int| 0 <= i < stride(d) ==> (#[trigger] d.trans@[i]).0 == 0
    // the start ids are state ids (the dead state for an unsupported mode); max_match_id and
    // max_special_id are mere bounds (they need not be state ids when there is no match state)
    &&& valid_sid(d, d.special.start_unanchored_id) && valid_sid(d, d.special.start_anchored_id)
    &&& d.special.max_match_id.0 <= d.special.max_special_id.0
    // match states: ids 2*stride ..= max_match_id index the match table, lists are non-empty
    &&& forall|s: StateID| #[trigger] match_sid(d, s) ==> {
            &&& (s.0 as int / stride(d)) - 2 < d.matches@.len()
            &&& d.matches@[(s.0 as int / stride(d)) - 2]@.len() >= 1
        }
    &&& forall|i: int, j: int| 0 <= i < d.matches@.len() && 0 <= j < d.matches@[i]@.len()
            ==> (#[trigger] d.matches@[i]@[j]).0 < d.pattern_lens@.len()
}

proof fn lemma_shr_is_div(x: usize, k: usize)
    requires k <= 9,
    ensures (x >> k) as int == x as int / (vstd::arithmetic::power2::pow2(k as nat) as int),
{
    vstd::arithmetic::power2::lemma2_to64();
    assert(x >> k == x / (1usize << k)) by (bit_vector) requires k <= 9;
    assert((1usize << k) as int == vstd::arithmetic::power2::pow2(k as nat) as int) by {
        vstd::bits::lemma_usize_shl_is_mul(1, k);
        vstd::arithmetic::power2::lemma2_to64();
    }
}

proof fn lemma_match_offset(d: &DFA, sid: StateID)
    requires dfa_wf(d), valid_sid(d, sid), sid.0 != 0, sid.0 <= d.special.max_match_id.0,
    ensures
        ((sid.0 as usize) >> d.stride2) as int == sid.0 as int / stride(d),
        sid.0 as int / stride(d) >= 2,
        (sid.0 as int / stride(d)) - 2 < d.matches@.len(),
        d.matches@[(sid.0 as int / stride(d)) - 2]@.len() >= 1,
{
    lemma_shr_is_div(sid.0 as usize, d.stride2);
    vstd::arithmetic::power2::lemma_pow2_pos(d.stride2 as nat);
    let st = stride(d);
    let x = sid.0 as int;
    assert(match_sid(d, sid));
    // a non-zero multiple of the stride other than the stride itself is at least twice the stride
    assert(x >= 2 * st) by (nonlinear_arith) requires st > 0, x % st == 0, x > 0, x != st;
    assert(x / st >= 2) by (nonlinear_arith) requires st > 0, x >= 2 * st;
}

impl DFA {
// R-newUnchecked: `StateID::new_unchecked(k)` -> `StateID(k)` (body of the macro-generated const fn)
//@@ item src/dfa.rs | const DEAD: StateID
//@@ sigsub 1 /StateID::new_unchecked\((\d+)\)/ => StateID(\1)
//@@ end

//@@ fn src/dfa.rs | fn start_state(&self, anchored: Anchored) -> Result<StateID, MatchError> | res=r
//@@ header
        requires dfa_wf(self),
        ensures
            // C13/C16: fails exactly for the mode whose start id is the dead state
            (r is Ok) == (if anchored is Yes { self.special.start_anchored_id.0 != 0 } else { self.special.start_unanchored_id.0 != 0 }),
            r is Ok ==> valid_sid(self, r->Ok_0) && r->Ok_0.0 != 0
                && r->Ok_0 == (if anchored is Yes { self.special.start_anchored_id } else { self.special.start_unanchored_id }),
//@@ end

//@@ fn src/dfa.rs | fn next_state( | within=unsafe impl Automaton for DFA | res=r
//@@ header
        requires dfa_wf(self), valid_sid(self, sid),
        ensures
            // C16: never panics, the result is again a state id; C19: one table lookup
            valid_sid(self, r),
            r == self.trans@[sid.0 + self.byte_classes.0[byte as int]],
            // the dead state is absorbing
            sid.0 == 0 ==> r.0 == 0,
//@@ end

//@@ fn src/dfa.rs | fn is_special(&self, sid: StateID) -> bool | within=unsafe impl Automaton for DFA | res=r
//@@ header
        ensures r == (sid.0 <= self.special.max_special_id.0)
//@@ end

//@@ fn src/dfa.rs | fn is_dead(&self, sid: StateID) -> bool | within=unsafe impl Automaton for DFA | res=r
//@@ header
        ensures r == (sid.0 == 0)
//@@ end

//@@ fn src/dfa.rs | fn is_match(&self, sid: StateID) -> bool | within=unsafe impl Automaton for DFA | res=r
//@@ header
        ensures r == (sid.0 != 0 && sid.0 <= self.special.max_match_id.0),
                // C16: dead and match states are special
                dfa_wf(self) && (r || sid.0 == 0) ==> sid.0 <= self.special.max_special_id.0,
//@@ end

//@@ fn src/dfa.rs | fn is_start(&self, sid: StateID) -> bool | within=unsafe impl Automaton for DFA | res=r
//@@ header
        ensures r == (sid.0 == self.special.start_unanchored_id.0 || sid.0 == self.special.start_anchored_id.0)
//@@ end

//@@ fn src/dfa.rs | fn match_len(&self, sid: StateID) -> usize | within=unsafe impl Automaton for DFA | res=r
//@@ header
        requires dfa_wf(self), valid_sid(self, sid), sid.0 != 0, sid.0 <= self.special.max_match_id.0,
        ensures r >= 1, r == self.matches@[(sid.0 as int / stride(self)) - 2]@.len(),
//@@ before /let offset = /
        proof { lemma_match_offset(self, sid); }
//@@ end

//@@ fn src/dfa.rs | fn match_pattern(&self, sid: StateID, index: usize) -> PatternID | within=unsafe impl Automaton for DFA | res=r
//@@ header
        requires dfa_wf(self), valid_sid(self, sid), sid.0 != 0, sid.0 <= self.special.max_match_id.0,
                 index < self.matches@[(sid.0 as int / stride(self)) - 2]@.len(),
        ensures r == self.matches@[(sid.0 as int / stride(self)) - 2]@[index as int],
                // C16: listed pattern ids are valid
                r.0 < self.pattern_lens@.len(),
//@@ before /let offset = /
        proof { lemma_match_offset(self, sid); }
//@@ end

//@@ fn src/dfa.rs | fn patterns_len(&self) -> usize | within=unsafe impl Automaton for DFA | res=r
//@@ header
        ensures r == self.pattern_lens@.len()
//@@ end

// R-idx: `self.pattern_lens[pid]` -> `self.pattern_lens[pid.as_usize()]` (body of `Index<PatternID>`)
//@@ fn src/dfa.rs | fn pattern_len(&self, pid: PatternID) -> usize | within=unsafe impl Automaton for DFA | res=r
//@@ sub 1 /self\.pattern_lens\[pid\]/ => self.pattern_lens[pid.as_usize()]
//@@ header
        requires pid.0 < self.pattern_lens@.len(),
        ensures r == self.pattern_lens@[pid.0 as int].0 as usize
//@@ end
}

} // verus!
fn main() {}
