// UNIT u7_replace — the in-memory replace driver (src/automaton.rs try_replace_all_with_bytes).
// Properties: C12 C15.  Engine: Verus.  The iterator it is driven by is verified in u1_iter and
// used here through its contract only (modular stubs).
use vstd::prelude::*;
verus! {

//@@ include types.inc
//@@ include automaton.inc
//@@ include lemmas_scan.inc
//@@ include finditer.inc STUB=u1_iter

// R-self: the provided trait method `Automaton::try_find_iter` as a free function (`self` -> `aut`)
//@@ fn src/automaton.rs | fn try_find_iter<'a, 'h>(
//@@ sigsub 1 /fn try_find_iter<'a, 'h>\(\s*&'a self,/ => fn try_find_iter<'a, 'h, A: AutomatonS>(aut: &'a A,
//@@ sigsub 1 /FindIter<'a, 'h, Self>/ => FindIter<'a, 'h, A>
//@@ sigsub 1 /where\s+Self: Sized,/ =>
//@@ sub 1 /FindIter::new\(self, input\)/ => FindIter::new(aut, input)
//@@ header
    requires aut_wf(aut), input.wf(),
    ensures
        (res is Ok) == (aut.start_s(input.anchored) is Some),
        res is Ok ==> res->Ok_0.aut == aut && res->Ok_0.input == input
            && res->Ok_0.last_match_end is None && res->Ok_0.inv(),
//@@ end

// what the closure may rely on (C12): it is handed a match of the iterator and exactly its bytes
spec fn replace_arg_ok(haystack: Seq<u8>, m: Match, bytes: Seq<u8>) -> bool {
    m.span.start <= m.span.end <= haystack.len() && bytes == haystack.subrange(m.span.start as int, m.span.end as int)
}

// R-self as above; R-forIter: `for m in E? {` is Rust's own desugaring `let mut it = E?; loop { let m =
// match it.next() { Some(m) => m, None => break }; ..` (FindIter's Iterator impl is its `next`);
// R-extend: `Vec<u8>::extend(&[u8])` is `extend_from_slice` (std specialisation, same result).
//@@ fn src/automaton.rs | fn try_replace_all_with_bytes<F>(
//@@ sigsub 1 /fn try_replace_all_with_bytes<F>\(\s*&self,/ => fn try_replace_all_with_bytes<A: AutomatonS, F>(aut: &A,
//@@ sigsub 1 /where\s+Self: Sized,/ => where
//@@ sub 1 /for m in self\.try_find_iter\(Input::new\(haystack\)\)\? \{/ => let mut it = try_find_iter(aut, Input::new(haystack))?; loop { let m = match it.next() { Some(m) => m, None => break };
//@@ sub 2 /dst\.extend\(/ => dst.extend_from_slice(
//@@ header
    requires
        aut_wf(aut), haystack@.len() < usize::MAX,
        forall|m: Match, b: &[u8], d: &mut Vec<u8>| replace_arg_ok(haystack@, m, b@)
            ==> #[trigger] replace_with.requires((&m, b, d)),
    ensures
        // C13: only the configuration decides rejection
        (res is Ok) == (aut.start_s(Anchored::No) is Some),
//@@ loop 1
        invariant
            it.inv(), it.aut == aut, it.input.haystack == haystack,
            it.input.span.end == haystack@.len(), it.input.anchored is No,
            last_match <= haystack@.len(),
            it.input.span.start <= it.input.span.end ==> last_match <= it.input.span.start,
            forall|m: Match, b: &[u8], d: &mut Vec<u8>| replace_arg_ok(haystack@, m, b@)
                ==> #[trigger] replace_with.requires((&m, b, d)),
        decreases it.input.span.end + 1 - it.input.span.start, (if it.last_match_end == Some(it.input.span.start) { 0int } else { 1int }),
//@@ end

} // verus!
fn main() {}
