// UNIT u2_stream — the stream chunk iterator (src/automaton.rs StreamChunkIter, StreamFindIter,
// try_stream_replace_all_with).  Properties: C07 C08 C18 C15 C19.  Engine: Verus.
// Every quantity of the properties — read sizes, where a read ends relative to a match, the
// position of a read/write fault, the buffer capacity — is a universally quantified variable here.
// VERUS-RLIMIT 80   (the outer loop of StreamChunkIter::next needs ~12 units; headroom against drift)
use vstd::prelude::*;
verus! {

//@@ include types.inc
//@@ include automaton.inc
//@@ include stream_spec.inc
//@@ include io.inc
//@@ include buffer.inc STUB=u2_buffer NMAX=2

//@@ fn src/automaton.rs | fn get_match<A: Automaton + ?Sized>( | res=m | stub=u1_search
//@@ header
    requires aut_wf(aut), aut.valid_s(sid), aut.match_s(sid), index < aut.mlen_s(sid),
             aut.depth_s(sid) <= at,
    ensures m == mk_match(aut, sid, index as nat, at as int)
//@@ end

//@@ include streamiter.inc STUB=0

//@@ item src/automaton.rs | pub struct StreamFindIter<'a, A, R>
//@@ sigsub 1 /pub struct/ => struct
//@@ end

impl<'a, A: Automaton, R: vio::Read> StreamFindIter<'a, A, R> {
// `Iterator::next` of StreamFindIter (method body from /repo; trait impl header not reproduced)
//@@ fn src/automaton.rs | fn next(&mut self) -> Option<std::io::Result<Match>> | within=for StreamFindIter<'a, A, R>
//@@ header
        requires old(self).it.inv(),
        ensures
            final(self).it.inv(), final(self).it.aut == old(self).it.aut,
            final(self).it.rdr.stream() == old(self).it.rdr.stream(),
            match res {
                // C07: the next match of the abstract run over the whole stream ...
                Some(Ok(m)) => old(self).it.rest().len() > 0 && m == old(self).it.rest()[0]
                    && final(self).it.rest() == old(self).it.rest().skip(1),
                // C18: ... an error loses nothing ...
                Some(Err(_)) => final(self).it.rest() == old(self).it.rest(),
                // ... and the end is reported only when nothing is left
                None => old(self).it.rest().len() == 0
                    && final(self).it.rdr.pos() == final(self).it.rdr.stream().len(),
            },
//@@ loop 1
            invariant
                self.it.inv(), self.it.aut == old(self).it.aut,
                self.it.rdr.stream() == old(self).it.rdr.stream(),
                self.it.rest() == old(self).it.rest(),
            decreases self.it.rdr.stream().len() - self.it.reported(),
//@@ end
}

} // verus!
fn main() {}
