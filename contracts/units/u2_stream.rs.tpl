// UNIT u2_stream — the stream chunk iterator (src/automaton.rs StreamChunkIter, StreamFindIter,
// try_stream_replace_all_with).  Properties: C07 C08 C18 C15 C19.  Engine: Verus.
// Every quantity of the properties — read sizes, where a read ends relative to a match, the
// position of a read/write fault, the buffer capacity — is a universally quantified variable here.
// VERUS-RLIMIT 80   (the outer loop of StreamChunkIter::next needs ~12 units; headroom against drift)
use vstd::prelude::*;
verus! {

//@@ include types.inc
//@@ include automaton.inc
//@@ include stream_spec.inc
//@@ include io.inc
//@@ include buffer.inc STUB=u2_buffer NMAX=2

//@@ fn src/automaton.rs | fn get_match<A: Automaton + ?Sized>( | res=m | stub=u1_search
//@@ header
    requires aut_wf(aut), aut.valid_s(sid), aut.match_s(sid), index < aut.mlen_s(sid),
             aut.depth_s(sid) <= at,
    ensures m == mk_match(aut, sid, index as nat, at as int)
//@@ end

//@@ item src/automaton.rs | enum StreamChunk<'r>
//@@ end

// R-path: `crate::util::buffer::Buffer` -> `Buffer` (single-module extraction)
//@@ item src/automaton.rs | struct StreamChunkIter<'a, A, R>
//@@ sub 1 /crate::util::buffer::Buffer/ => Buffer
//@@ end

impl<'a, A: Automaton, R: vio::Read> StreamChunkIter<'a, A, R> {
    // absolute stream offset of buffer()[0]
    spec fn base(&self) -> int { self.absolute_pos - self.buffer_pos }
    // absolute offset up to which bytes have been handed to the caller
    spec fn reported(&self) -> int { self.base() + self.buffer_reported_pos }
    // abstraction: the matches this iterator still has to report
    spec fn rest(&self) -> Seq<Match> {
        st_full(self.aut, self.rdr.stream(), self.absolute_pos as int, self.sid)
    }
    spec fn inv(&self) -> bool {
        &&& aut_wf(self.aut)
        &&& self.aut.kind_s() is Standard
        &&& self.aut.minlen_s() >= 1
        &&& self.aut.start_s(Anchored::No) == Some(self.start)
        &&& self.aut.valid_s(self.sid)
        &&& self.buf.wf()
        &&& self.buf.min >= self.aut.maxlen_s()
        &&& self.buffer_reported_pos <= self.buffer_pos <= self.buf.end
        &&& self.buffer_pos <= self.absolute_pos
        &&& self.rdr.stream().len() <= usize::MAX
        &&& self.rdr.pos() == self.base() + self.buf.end
        &&& self.rdr.pos() <= self.rdr.stream().len()
        // the buffer is a window of the stream
        &&& self.buf.view_s() =~= self.rdr.stream().subrange(self.base(), self.base() + self.buf.end)
        // the single inequality that keeps `buffer_pos - mat.len()` from underflowing and
        // prevents any byte from being reported twice or before it is final; it is void once
        // the whole stream has been consumed and flushed (then no match is pending)
        &&& (self.drained() || self.need() <= self.buffer_pos - self.buffer_reported_pos)
        &&& self.aut.depth_s(self.sid) <= self.absolute_pos
    }
    // bytes before the current position that may still belong to the next match
    spec fn need(&self) -> nat {
        if self.aut.match_s(self.sid) { self.aut.plen_s(self.aut.mpat_s(self.sid, 0)) } else { self.aut.depth_s(self.sid) }
    }
    spec fn drained(&self) -> bool {
        &&& self.rdr.pos() == self.rdr.stream().len()
        &&& self.buffer_pos == self.buf.end
        &&& !self.aut.match_s(self.sid)
    }

//@@ fn src/automaton.rs | fn new( | within=impl<'a, A: Automaton, R: std::io::Read> StreamChunkIter<'a, A, R>
//@@ sub 1 /crate::util::buffer::Buffer::new/ => Buffer::new
//@@ header
        requires
            aut_wf(aut), rdr.pos() == 0, rdr.stream().len() <= usize::MAX,
            aut.maxlen_s() <= usize::MAX / 8 - 1,
        ensures
            // C13 (b)(d)(a): rejected iff not standard, or an empty pattern, or no unanchored start
            (res is Ok) == (aut.kind_s() is Standard && aut.minlen_s() >= 1 && aut.start_s(Anchored::No) is Some),
            res is Ok ==> res->Ok_0.inv() && res->Ok_0.aut == aut && res->Ok_0.rdr == rdr
                && res->Ok_0.reported() == 0
                && res->Ok_0.rest() == st_rest(aut, rdr.stream(), 0, aut.start_s(Anchored::No)->Some_0),
//@@ end

//@@ fn src/automaton.rs | fn get_match_chunk(&self, mat: Match) -> core::ops::Range<usize> | res=r
//@@ header
        requires mat.span.start <= mat.span.end, mat.span.end - mat.span.start <= self.buffer_pos,
        ensures r.start == self.buffer_pos - (mat.span.end - mat.span.start), r.end == self.buffer_pos,
//@@ end

//@@ fn src/automaton.rs | fn get_non_match_chunk( | res=r
//@@ header
        requires mat.span.start <= mat.span.end, mat.span.end - mat.span.start <= self.buffer_pos,
        ensures
            r is Some ==> r->Some_0.start == self.buffer_reported_pos
                && r->Some_0.end == self.buffer_pos - (mat.span.end - mat.span.start)
                && r->Some_0.start < r->Some_0.end,
            r is None ==> self.buffer_pos - (mat.span.end - mat.span.start) <= self.buffer_reported_pos,
//@@ end

//@@ fn src/automaton.rs | fn get_pre_roll_non_match_chunk(&self) -> Option<core::ops::Range<usize>> | res=r
//@@ header
        requires self.buf.wf(),
        ensures
            r is Some ==> r->Some_0.start == self.buffer_reported_pos && r->Some_0.start < r->Some_0.end
                && self.buf.end >= self.buf.min && r->Some_0.end == self.buf.end - self.buf.min,
            r is None ==> self.buf.end < self.buf.min || self.buf.end - self.buf.min <= self.buffer_reported_pos,
//@@ end

//@@ fn src/automaton.rs | fn get_eof_non_match_chunk(&self) -> Option<core::ops::Range<usize>> | res=r
//@@ header
        requires self.buf.wf(),
        ensures
            r is Some ==> r->Some_0.start == self.buffer_reported_pos && r->Some_0.end == self.buf.end
                && r->Some_0.start < r->Some_0.end,
            r is None ==> self.buf.end <= self.buffer_reported_pos,
//@@ end

//@@ fn src/automaton.rs | fn get_match(&self) -> Match | within=impl<'a, A: Automaton, R: std::io::Read> StreamChunkIter<'a, A, R> | res=m
//@@ header
        requires aut_wf(self.aut), self.aut.valid_s(self.sid), self.aut.match_s(self.sid),
                 self.aut.depth_s(self.sid) <= self.absolute_pos,
        ensures m == mk_match(self.aut, self.sid, 0, self.absolute_pos as int)
//@@ end

//@@ fn src/automaton.rs | fn next(&mut self) -> Option<std::io::Result<StreamChunk>> | within=impl<'a, A: Automaton, R: std::io::Read> StreamChunkIter<'a, A, R>
//@@ sub 1 /for &byte in (self\.buf\.buffer\(\)\[self\.buffer_pos\.\.\]\.iter\(\)) \{/ => for byte__ref in it: \1 { let byte = *byte__ref;
//@@ header
        requires old(self).inv(),
        ensures
            final(self).inv(),
            final(self).aut == old(self).aut,
            final(self).rdr.stream() == old(self).rdr.stream(),
            match res {
                // C18: end of stream is reported only when the reader reported it, and then
                // everything has been handed over
                None => old(self).rest().len() == 0
                    && final(self).reported() == final(self).rdr.stream().len()
                    && final(self).rdr.pos() == final(self).rdr.stream().len(),
                // C18: a read error surfaces as an item and loses nothing
                Some(Err(_)) => final(self).reported() == old(self).reported()
                    && final(self).rest() == old(self).rest(),
                // C08: a non-match chunk is the next unreported bytes, never reaching into the next match
                Some(Ok(StreamChunk::NonMatch { bytes })) =>
                    bytes@.len() > 0
                    && final(self).reported() == old(self).reported() + bytes@.len()
                    && bytes@ == old(self).rdr.stream().subrange(old(self).reported(), old(self).reported() + bytes@.len())
                    && final(self).rest() == old(self).rest()
                    && (old(self).rest().len() > 0 ==> final(self).reported() <= old(self).rest()[0].span.start),
                // C07/C08: a match chunk is the next match of the abstract run, with its bytes
                Some(Ok(StreamChunk::Match { bytes, mat })) =>
                    old(self).rest().len() > 0 && mat == old(self).rest()[0]
                    && old(self).reported() == mat.span.start
                    && final(self).reported() == mat.span.end
                    && bytes@ == old(self).rdr.stream().subrange(mat.span.start as int, mat.span.end as int)
                    && final(self).rest() == old(self).rest().skip(1),
            },
//@@ loop 1
            invariant
                self.inv(), self.aut == old(self).aut,
                self.rdr.stream() == old(self).rdr.stream(),
                self.reported() == old(self).reported(),
                self.rest() == old(self).rest(),
            decreases
                self.rdr.stream().len() - self.absolute_pos,
                (if self.aut.match_s(self.sid) { 0int } else { 1int }),
                self.rdr.stream().len() - self.rdr.pos(),
                self.buf.end - self.buffer_pos,
//@@ loop 2
                invariant_except_break
                    !self.aut.match_s(self.sid),
                    self.absolute_pos == start + it.index@,
                invariant
                    aut_wf(self.aut), self.aut == old(self).aut, self.aut.valid_s(self.sid),
                    self.aut.start_s(Anchored::No) == Some(self.start),
                    self.rdr.stream() == old(self).rdr.stream(), self.rdr.stream().len() <= usize::MAX,
                    self.buf == before.buf, self.buffer_pos == before.buffer_pos, self.rdr == before.rdr,
                    self.buffer_reported_pos == before.buffer_reported_pos, self.start == before.start,
                    before.inv(), start == before.absolute_pos, before.buffer_pos < before.buf.end,
                    start <= self.absolute_pos <= start + (before.buf.end - before.buffer_pos),
                    self.aut.depth_s(self.sid) <= before.buffer_pos + (self.absolute_pos - start) - before.buffer_reported_pos,
                    self.aut.depth_s(self.sid) <= self.absolute_pos,
                    st_full(self.aut, self.rdr.stream(), self.absolute_pos as int, self.sid) == old(self).rest(),
                ensures
                    aut_wf(self.aut), self.aut == old(self).aut, self.aut.valid_s(self.sid),
                    self.aut.start_s(Anchored::No) == Some(self.start),
                    self.rdr.stream() == old(self).rdr.stream(),
                    self.buf == before.buf, self.buffer_pos == before.buffer_pos, self.rdr == before.rdr,
                    self.buffer_reported_pos == before.buffer_reported_pos, self.start == before.start,
                    start <= self.absolute_pos <= start + (before.buf.end - before.buffer_pos),
                    self.absolute_pos > start,
                    self.aut.depth_s(self.sid) <= before.buffer_pos + (self.absolute_pos - start) - before.buffer_reported_pos,
                    self.aut.depth_s(self.sid) <= self.absolute_pos,
                    st_full(self.aut, self.rdr.stream(), self.absolute_pos as int, self.sid) == old(self).rest(),
//@@ before /if let Some\(r\) = self\.get_pre_roll_non_match_chunk\(\) \{/
                proof {
                    assert(self.buffer_pos == self.buf.end);
                    assert(!self.aut.match_s(self.sid));
                    if !self.drained() {
                        lemma_st_rest_starts(self.aut, self.rdr.stream(), self.absolute_pos as int, self.sid);
                    }
                }
//@@ before /let start = self\.absolute_pos;/
            let ghost before = *self;
            proof {
                assert(!self.aut.match_s(self.sid));
                assert(self.buffer_pos < self.buf.end);
                assert(!self.drained());
            }
//@@ after /let byte = \*byte__ref;/
                proof {
                    let strm = self.rdr.stream();
                    let abs = self.absolute_pos as int;
                    assert(it.index@ < before.buf.end - before.buffer_pos);
                    assert(byte == before.buf.view_s()[before.buffer_pos + it.index@]);
                    assert(before.buf.view_s()[before.buffer_pos + it.index@] == strm[before.base() + before.buffer_pos + it.index@]);
                    assert(byte == strm[abs]);
                    assert(abs < strm.len());
                    let s2 = self.aut.delta(Anchored::No, self.sid, byte);
                    assert(st_full(self.aut, strm, abs, self.sid) == st_rest(self.aut, strm, abs, self.sid));
                    assert(st_rest(self.aut, strm, abs, self.sid) == st_full(self.aut, strm, abs + 1, s2));
                }
//@@ end
}

//@@ item src/automaton.rs | pub struct StreamFindIter<'a, A, R>
//@@ sigsub 1 /pub struct/ => struct
//@@ end

impl<'a, A: Automaton, R: vio::Read> StreamFindIter<'a, A, R> {
// `Iterator::next` of StreamFindIter (method body from /repo; trait impl header not reproduced)
//@@ fn src/automaton.rs | fn next(&mut self) -> Option<std::io::Result<Match>> | within=for StreamFindIter<'a, A, R>
//@@ header
        requires old(self).it.inv(),
        ensures
            final(self).it.inv(), final(self).it.aut == old(self).it.aut,
            final(self).it.rdr.stream() == old(self).it.rdr.stream(),
            match res {
                // C07: the next match of the abstract run over the whole stream ...
                Some(Ok(m)) => old(self).it.rest().len() > 0 && m == old(self).it.rest()[0]
                    && final(self).it.rest() == old(self).it.rest().skip(1),
                // C18: ... an error loses nothing ...
                Some(Err(_)) => final(self).it.rest() == old(self).it.rest(),
                // ... and the end is reported only when nothing is left
                None => old(self).it.rest().len() == 0
                    && final(self).it.rdr.pos() == final(self).it.rdr.stream().len(),
            },
//@@ loop 1
            invariant
                self.it.inv(), self.it.aut == old(self).it.aut,
                self.it.rdr.stream() == old(self).it.rdr.stream(),
                self.it.rest() == old(self).it.rest(),
            decreases self.it.rdr.stream().len() - self.it.reported(),
//@@ end
}

} // verus!
fn main() {}
