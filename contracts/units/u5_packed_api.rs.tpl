// UNIT u5_packed_api — dispatch of the packed searcher (src/packed/api.rs Searcher::{find,find_in,
// find_in_slow}, FindIter::next).  Properties: C06 C10 C15.  Engine: Verus.
// Teddy and Rabin-Karp are abstract here (their answers are the uninterpreted functions
// teddy_ans / rk_ans); what is proved is the dispatch: the Teddy precondition (minimum length)
// holds on its branch, both engines are handed exactly haystack[..span.end] and span.start, all
// slices are in bounds, and the iterator restarts at the previous end and terminates.
use vstd::prelude::*;
verus! {

//@@ include types.inc

// abstract Teddy searcher (src/packed/teddy/builder.rs::Searcher)
struct TeddySearcher { min: usize }
uninterp spec fn teddy_ans(t: TeddySearcher, hay: Seq<u8>, at: int) -> Option<Match>;
impl TeddySearcher {
    // contract = the `assert!` at the top of teddy::Searcher::find plus in-range results
    #[verifier::external_body]
    fn find(&self, haystack: &[u8], at: usize) -> (r: Option<Match>)
        requires at <= haystack@.len(), haystack@.len() - at >= self.min,
        ensures r == teddy_ans(*self, haystack@, at as int),
                r is Some ==> at <= r->Some_0.span.start <= r->Some_0.span.end <= haystack@.len(),
    { unimplemented!() }
    #[verifier::external_body]
    fn minimum_len(&self) -> (r: usize) ensures r == self.min { unimplemented!() }
}

// abstract Rabin-Karp searcher (src/packed/rabinkarp.rs)
struct RabinKarp { x: u8 }
uninterp spec fn rk_ans(rk: RabinKarp, hay: Seq<u8>, at: int) -> Option<Match>;
impl RabinKarp {
    #[verifier::external_body]
    fn find_at(&self, haystack: &[u8], at: usize) -> (r: Option<Match>)
        requires at <= haystack@.len(),
        ensures r == rk_ans(*self, haystack@, at as int),
                r is Some ==> at <= r->Some_0.span.start <= r->Some_0.span.end <= haystack@.len(),
    { unimplemented!() }
}

// R-path: `teddy::Searcher` -> `TeddySearcher`
//@@ item src/packed/api.rs | enum SearchKind
//@@ sub 1 /teddy::Searcher/ => TeddySearcher
//@@ end

// R-drop-field: the `patterns: Arc<Patterns>` field is not read by the extracted functions
//@@ item src/packed/api.rs | pub struct Searcher
//@@ sigsub 1 /pub struct/ => struct
//@@ sub 1 /patterns: Arc<Patterns>,/ =>
//@@ end

// the packed answer for a span, as a function of haystack[..span.end] and span.start only (C10)
spec fn packed_ans(s: Searcher, hay: Seq<u8>, span: Span) -> Option<Match> {
    let h = hay.subrange(0, span.end as int);
    match s.search_kind {
        SearchKind::Teddy(t) => if span.end - span.start < t.min { rk_ans(s.rabinkarp, h, span.start as int) }
                                 else { teddy_ans(t, h, span.start as int) },
        SearchKind::RabinKarp => rk_ans(s.rabinkarp, h, span.start as int),
    }
}

impl Searcher {
// R-mono: `find<B: AsRef<[u8]>>(&self, haystack: B)` at B = &[u8] (`as_ref` is the identity)
//@@ fn src/packed/api.rs | pub fn find<B: AsRef<[u8]>>(&self, haystack: B) -> Option<Match> | res=r
//@@ sigsub 1 /pub fn find<B: AsRef<\[u8\]>>\(&self, haystack: B\)/ => fn find(&self, haystack: &[u8])
//@@ sub 1 /let haystack = haystack\.as_ref\(\);/ =>
//@@ header
        ensures
            // the whole haystack is the span
            r == packed_ans(*self, haystack@, Span { start: 0, end: haystack@.len() as usize }),
            r is Some ==> r->Some_0.span.start <= r->Some_0.span.end <= haystack@.len(),
//@@ end

// R-mono: `find_iter<'a, 'b, B: ?Sized + AsRef<[u8]>>(&'a self, haystack: &'b B)` at B = [u8]
//@@ fn src/packed/api.rs | pub fn find_iter<'a, 'b, B: ?Sized + AsRef<[u8]>>( | res=r
//@@ sigsub 1 /pub fn find_iter<'a, 'b, B: \?Sized \+ AsRef<\[u8\]>>\(/ => fn find_iter<'a, 'b>(
//@@ sigsub 1 /haystack: &'b B,/ => haystack: &'b [u8],
//@@ sub 1 /let haystack = haystack\.as_ref\(\);/ =>
//@@ header
        ensures
            // the iterator starts on the whole haystack with this searcher (then `next` above)
            r.searcher == self, r.haystack == haystack,
            r.span == (Span { start: 0, end: haystack@.len() as usize }),
//@@ end

//@@ fn src/packed/api.rs | pub fn minimum_len(&self) -> usize | within=impl Searcher | res=r
//@@ sigsub 1 /pub fn/ => fn
//@@ header
        ensures r == self.minimum_len
//@@ end

// R-mono: `find_in<B: AsRef<[u8]>>(&self, haystack: B, ..)` at B = &[u8] (`as_ref` is the identity);
// R-idx: `haystack[span]` -> `haystack[span.start..span.end]` (body of `Index<Span> for [u8]`)
//@@ fn src/packed/api.rs | pub fn find_in<B: AsRef<[u8]>>( | res=r
//@@ sigsub 1 /pub fn find_in<B: AsRef<\[u8\]>>\(/ => fn find_in(
//@@ sigsub 1 /haystack: B,/ => haystack: &[u8],
//@@ sub 1 /let haystack = haystack\.as_ref\(\);/ =>
//@@ sub 1 /haystack\[span\]\.len\(\)/ => haystack[span.start..span.end].len()
//@@ header
        requires span.start <= span.end <= haystack@.len(),
        ensures
            r == packed_ans(*self, haystack@, span),
            // C15: reported matches lie inside the span
            r is Some ==> span.start <= r->Some_0.span.start <= r->Some_0.span.end <= span.end,
//@@ end

//@@ fn src/packed/api.rs | fn find_in_slow(&self, haystack: &[u8], span: Span) -> Option<Match> | res=r
//@@ header
        requires span.start <= span.end <= haystack@.len(),
        ensures r == rk_ans(self.rabinkarp, haystack@.subrange(0, span.end as int), span.start as int),
                r is Some ==> span.start <= r->Some_0.span.start <= r->Some_0.span.end <= span.end,
//@@ end
}

//@@ item src/packed/api.rs | pub struct FindIter<'s, 'h>
//@@ sigsub 1 /pub struct/ => struct
//@@ end

impl<'s, 'h> FindIter<'s, 'h> {
// `Iterator::next` of packed::FindIter (method body from /repo)
//@@ fn src/packed/api.rs | fn next(&mut self) -> Option<Match> | within=impl<'s, 'h> Iterator for FindIter<'s, 'h> | res=r
//@@ header
        requires old(self).span.end <= old(self).haystack@.len(),
        ensures
            final(self).searcher == old(self).searcher, final(self).haystack == old(self).haystack,
            final(self).span.end == old(self).span.end,
            // C06: repeat the search from the end of the previous match
            old(self).span.start > old(self).span.end ==> r is None,
            old(self).span.start <= old(self).span.end ==> r == packed_ans(*old(self).searcher, old(self).haystack@, old(self).span),
            r is Some ==> final(self).span.start == r->Some_0.span.end,
            r is None ==> final(self).span == old(self).span,
//@@ end
}

} // verus!
fn main() {}
