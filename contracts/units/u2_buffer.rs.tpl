// UNIT u2_buffer — the stream roll buffer (src/util/buffer.rs).  Properties: C07 C08 C18 C15.
use vstd::prelude::*;
verus! {

//@@ include io.inc

//@@ include buffer.inc STUB=0 NMAX=2

} // verus!
fn main() {}
