// UNIT u2_replace — the stream replacement driver (src/automaton.rs try_stream_replace_all_with).
// Properties: C08 C18 C15.  Engine: Verus.  StreamChunkIter::{new,next} are used through their
// contracts only (verified on their real bodies in u2_stream).
// VERUS-RLIMIT 60
use vstd::prelude::*;
verus! {

//@@ include types.inc
//@@ include automaton.inc
//@@ include stream_spec.inc
//@@ include io.inc
//@@ include buffer.inc STUB=u2_buffer NMAX=2
//@@ include streamiter.inc STUB=u2_stream

// what the replacement closure may rely on (C08): a match of the stream with absolute offsets and
// exactly its bytes
spec fn stream_arg_ok(stream: Seq<u8>, m: Match, bytes: Seq<u8>) -> bool {
    m.span.start < m.span.end <= stream.len() && bytes == stream.subrange(m.span.start as int, m.span.end as int)
}

// R-self: provided trait method as a free function (`self` -> `aut`);
// R-byRef: `mut wtr: W` is taken as `wtr: &mut W` (and `&mut wtr` -> `wtr`) so that the writer's
//          final state is observable; one level of indirection less, same calls in the same order;
// R-mapErr: `E.map_err(|e| B)?` is `match E { Ok(v) => v, Err(e) => return Err(B) }`;
// R-whileLet: `while let Some(x) = E { .. }` is `loop { let x = match E { Some(x) => x, None => break }; .. }`.
//@@ fn src/automaton.rs | fn try_stream_replace_all_with<R, W, F>(
//@@ sigsub 1 /fn try_stream_replace_all_with<R, W, F>\(\s*&self,/ => fn try_stream_replace_all_with<A: Automaton, R, W, F>(aut: &A,
//@@ sigsub 1 /mut wtr: W,/ => wtr: &mut W,
//@@ sigsub 1 /where\s+Self: Sized,/ => where
//@@ sub 1 /let mut it = StreamChunkIter::new\(self, rdr\)\.map_err\(\|e\| \{\s*let kind = vio::ErrorKind::Other;\s*vio::Error::new\(kind, e\)\s*\}\)\?;/ => let mut it = match StreamChunkIter::new(aut, rdr) { Ok(v) => v, Err(e) => { let kind = vio::ErrorKind::Other; return Err(vio::Error::new(kind, e)) } };
//@@ sub 1 /while let Some\(result\) = it\.next\(\) \{/ => loop { let result = match it.next() { Some(result) => result, None => break };
//@@ sub 1 /replace_with\(&mat, bytes, &mut wtr\)\?;/ => replace_with(&mat, bytes, wtr)?;
//@@ header
    requires
        aut_wf(aut), rdr.pos() == 0, rdr.stream().len() <= usize::MAX,
        aut.maxlen_s() <= usize::MAX / 8 - 1,
        forall|m: Match, b: &[u8], w: &mut W| stream_arg_ok(rdr.stream(), m, b@)
            ==> #[trigger] replace_with.requires((&m, b, w)),
    ensures
        // C13: rejected by configuration only (not standard / empty pattern / no unanchored start)
        !(aut.kind_s() is Standard && aut.minlen_s() >= 1 && aut.start_s(Anchored::No) is Some) ==> res is Err,
//@@ loop 1
        invariant
            it.inv(), it.aut == aut, it.rdr.stream() == strm, it.reported() <= strm.len(),
            forall|m: Match, b: &[u8], w: &mut W| stream_arg_ok(strm, m, b@)
                ==> #[trigger] replace_with.requires((&m, b, w)),
        decreases strm.len() - it.reported(), it.rest().len(),
//@@ before /let mut it = match StreamChunkIter::new/
    let ghost strm = rdr.stream();
//@@ before /wtr\.write\w*\(bytes\)\?;/
                    let ghost out0 = wtr.out();
//@@ after /wtr\.write\w*\(bytes\)\?;/
                    // C08: every byte of a non-match chunk reaches the writer (a short write must
                    // not lose the tail of the chunk)
                    assert(wtr.out() == out0 + bytes@); // [C08]
//@@ end

} // verus!
fn main() {}
