// UNIT u4_nnfa_build — the mutators with which the compiler of nfa::noncontiguous builds the NFA
// (alloc_transition, alloc_match, alloc_state, add_transition, add_match, copy_matches, next_link)
// under the *builder-time* representation invariant `bwf`: every sparse chain is strictly sorted
// by byte, every link is in bounds, chains of different states are disjoint (ghost ownership),
// match chains point forward, dense rows lie inside the dense table.  Each mutator preserves
// `bwf` and has a whole-view postcondition: the transition function `look` (resp. the match
// list `mlist`) of the touched state changes in exactly one point, every other state keeps its
// whole function — "nothing else changed" is proved, not assumed.
// Properties: C01/C02/C03 (a trie edge that was added is the edge that is found; match lists keep
// supply order), C15/C20 (no index out of bounds, overflow of the id space is an Err, not a
// panic), C04 (a densified state's row is written together with its chain).
// What stays out of reach: the compiler passes that call these mutators (build_trie,
// fill_failure_transitions, shuffle, densify) — the step from `bwf` to the search-time
// invariant `nnfa_wf` of unit u3_nnfa is executed on real NFAs by the bounded check `repr-nnfa`.
// VERUS-RLIMIT 80
use vstd::prelude::*;
verus! {

// A-usize64: the proofs are for 64-bit targets (an index below 2^31 plus a class below 256 fits)
global size_of usize == 8;

//@@ include types.inc

impl StateID {
    // model of the macro-generated items of util/primitives.rs (A-ids); the limit itself
    // (StateID::MAX = i32::MAX - 1, `new` fails exactly above it) is checked by the Kani group
    // primitives_leaf
    const ZERO: StateID = StateID(0);
    fn as_usize(&self) -> (r: usize) ensures r == self.0 as usize { self.0 as usize }
}

struct BuildError { x: u8 }

// R-mapErr: `StateID::new(n).map_err(|e| BuildError::state_id_overflow(StateID::MAX.as_u64(),
// e.attempted()))?` -> `state_id_new(n)?` (trusted model of the constructor + error conversion)
#[verifier::external_body]
fn state_id_new(n: usize) -> (r: Result<StateID, BuildError>)
    ensures n <= 0x7FFF_FFFE ==> r is Ok && r->Ok_0.0 as usize == n,
            n > 0x7FFF_FFFE ==> r is Err,
{ unimplemented!() }

#[derive(Clone, Copy, Debug)]
struct SmallIndex(u32);

// `SmallIndex::new(depth).expect(..)`: panics above the limit (a precondition here)
#[verifier::external_body]
fn small_index_new_expect(n: usize) -> (r: SmallIndex)
    requires n <= 0x7FFF_FFFE,
    ensures r.0 as usize == n,
{ unimplemented!() }

struct Prefilter { x: u8 }

//@@ item src/util/alphabet.rs | pub(crate) struct ByteClasses
//@@ sigsub 1 /pub\(crate\) struct/ => struct
//@@ end

impl ByteClasses {
//@@ fn src/util/alphabet.rs | pub(crate) fn get(&self, byte: u8) -> u8 | res=r
//@@ sigsub 1 /pub\(crate\) fn/ => fn
//@@ header
        ensures r == self.0[byte as int]
//@@ end
}

//@@ item src/util/special.rs | pub(crate) struct Special
//@@ sigsub 1 /pub\(crate\) struct/ => struct
//@@ sub 4 /pub\(crate\) / =>
//@@ end

// R-rename: noncontiguous::Match clashes with util::search::Match of the prelude
#[derive(Clone, Copy)]
//@@ item src/nfa/noncontiguous.rs | struct Match
//@@ sigsub 1 /struct Match/ => struct NMatch
//@@ end

// R-drop-repr: `#[repr(packed)]` only affects layout
#[derive(Clone, Copy)]
//@@ item src/nfa/noncontiguous.rs | pub(crate) struct Transition
//@@ sigsub 1 /pub\(crate\) struct/ => struct
//@@ end

// model of `#[derive(Default)]` on the two link records (all fields zero)
impl Transition {
    fn default() -> (r: Transition) ensures r.byte == 0, r.next.0 == 0, r.link.0 == 0 {
        Transition { byte: 0, next: StateID(0), link: StateID(0) }
    }
}
impl NMatch {
    fn default() -> (r: NMatch) ensures r.pid.0 == 0, r.link.0 == 0 {
        NMatch { pid: PatternID(0), link: StateID(0) }
    }
}

//@@ item src/nfa/noncontiguous.rs | pub(crate) struct State
//@@ sigsub 1 /pub\(crate\) struct/ => struct
//@@ end

//@@ item src/nfa/noncontiguous.rs | pub struct NFA
//@@ sigsub 1 /pub struct/ => struct
//@@ sub 1 /Vec<Match>/ => Vec<NMatch>
//@@ end

// ---- abstract view -------------------------------------------------------------------------

spec fn alphabet_len(n: &NFA) -> int { n.byte_classes.0[255] as int + 1 }

// entry `i` of a sparse table is usable and its link obeys the order (0 terminates a chain)
spec fn link_ok(sp: Seq<Transition>, i: int) -> bool {
    &&& 0 < i < sp.len()
    &&& (sp[i].link.0 == 0 || (sp[i].link.0 < sp.len() && sp[sp[i].link.0 as int].byte > sp[i].byte))
}

spec fn all_links_ok(sp: Seq<Transition>) -> bool {
    forall|i: int| 0 < i < sp.len() ==> #[trigger] link_ok(sp, i)
}

spec fn ms(sp: Seq<Transition>, link: int) -> int {
    if 0 < link < sp.len() { 256 - sp[link].byte as int } else { 0 }
}

// the transition function of a chain walked from `link` (FAIL = StateID(1) = undefined); the
// measure is the distance of the entry's byte from 256: sorted chains are acyclic
spec fn chain_look(sp: Seq<Transition>, link: int, byte: u8) -> StateID
    decreases ms(sp, link)
{
    if !link_ok(sp, link) { StateID(1) }
    else {
        let t = sp[link];
        if byte <= t.byte { if byte == t.byte { t.next } else { StateID(1) } }
        else if t.link.0 == 0 { StateID(1) }
        else { chain_look(sp, t.link.0 as int, byte) }
    }
}

spec fn look(n: &NFA, s: int, byte: u8) -> StateID {
    chain_look(n.sparse@, n.states@[s].sparse.0 as int, byte)
}

// entry `z` lies on the chain that starts at entry `a`
spec fn reach(sp: Seq<Transition>, a: int, z: int) -> bool
    decreases ms(sp, a)
{
    if !link_ok(sp, a) { false }
    else if a == z { true }
    else if sp[a].link.0 == 0 { false }
    else { reach(sp, sp[a].link.0 as int, z) }
}

// the match list of a chain through `matches` (links point forward; 0 terminates)
spec fn mchain(mt: Seq<NMatch>, link: int) -> Seq<PatternID>
    decreases mt.len() - link
{
    if link <= 0 || link >= mt.len() { Seq::empty() }
    else if mt[link].link.0 <= link || mt[link].link.0 >= mt.len() { seq![mt[link].pid] }
    else { seq![mt[link].pid] + mchain(mt, mt[link].link.0 as int) }
}

spec fn mlist(n: &NFA, s: int) -> Seq<PatternID> { mchain(n.matches@, n.states@[s].matches.0 as int) }

// ghost ownership: every sparse entry / match entry belongs to at most one state's chain
spec fn owns(st: Seq<State>, sp: Seq<Transition>, own: spec_fn(int) -> int) -> bool {
    &&& forall|s: int| 0 <= s < st.len() && (#[trigger] st[s]).sparse.0 != 0 ==> own(st[s].sparse.0 as int) == s
    &&& forall|i: int| 0 < i < sp.len() && (#[trigger] sp[i]).link.0 != 0 ==> own(sp[i].link.0 as int) == own(i)
}
spec fn mowns(st: Seq<State>, mt: Seq<NMatch>, own: spec_fn(int) -> int) -> bool {
    &&& forall|s: int| 0 <= s < st.len() && (#[trigger] st[s]).matches.0 != 0 ==> own(st[s].matches.0 as int) == s
    &&& forall|i: int| 0 < i < mt.len() && (#[trigger] mt[i]).link.0 != 0 ==> own(mt[i].link.0 as int) == own(i)
}

// the builder-time representation invariant
spec fn bwf(n: &NFA) -> bool {
    &&& n.sparse@.len() >= 1
    &&& forall|b: int| 0 <= b < 256 ==> ((#[trigger] n.byte_classes.0[b]) as int) < alphabet_len(n)
    &&& forall|s: int| 0 <= s < n.states@.len() ==> {
            &&& (#[trigger] n.states@[s]).sparse.0 < n.sparse@.len()
            &&& n.states@[s].matches.0 < n.matches@.len()
            &&& (n.states@[s].dense.0 != 0 ==> n.states@[s].dense.0 + alphabet_len(n) <= n.dense@.len())
        }
    &&& all_links_ok(n.sparse@)
    &&& mlinks_ok(n.matches@)
    &&& exists|own: spec_fn(int) -> int| owns(n.states@, n.sparse@, own)
    &&& exists|own: spec_fn(int) -> int| mowns(n.states@, n.matches@, own)
}

// every field of every state but the head of its sparse chain
spec fn same_states_but_sparse(a: Seq<State>, b: Seq<State>) -> bool {
    &&& a.len() == b.len()
    &&& forall|s: int| 0 <= s < a.len() ==> {
            &&& (#[trigger] a[s]).dense == b[s].dense
            &&& a[s].matches == b[s].matches
            &&& a[s].fail == b[s].fail
            &&& a[s].depth == b[s].depth
        }
}

// ---- lemmas about chains ----------------------------------------------------------------------

// a chain whose entries above byte `p` are the same in both tables answers the same
proof fn lemma_frame_above(a: Seq<Transition>, b: Seq<Transition>, link: int, p: int, byte: u8)
    requires
        a.len() <= b.len(),
        all_links_ok(a),
        link == 0 || (0 < link < a.len() && a[link].byte as int > p),
        forall|i: int| 0 < i < a.len() && (#[trigger] a[i]).byte as int > p ==> b[i] == a[i],
    ensures chain_look(b, link, byte) == chain_look(a, link, byte),
    decreases ms(a, link)
{
    //@@ canary lemma_frame_above
    if link != 0 {
        assert(b[link] == a[link]);
        assert(link_ok(a, link));
        let t = a[link];
        if t.link.0 != 0 {
            assert(b[t.link.0 as int] == a[t.link.0 as int]);
            lemma_frame_above(a, b, t.link.0 as int, p, byte);
        }
    }
}

// a chain none of whose entries is `m` (it has another owner) answers the same
proof fn lemma_frame_owner(st: Seq<State>, a: Seq<Transition>, b: Seq<Transition>, own: spec_fn(int) -> int, link: int, m: int, byte: u8)
    requires
        a.len() <= b.len(),
        all_links_ok(a),
        owns(st, a, own),
        link == 0 || (0 < link < a.len() && own(link) != own(m)),
        forall|i: int| 0 < i < a.len() && i != m ==> #[trigger] b[i] == a[i],
    ensures chain_look(b, link, byte) == chain_look(a, link, byte),
    decreases ms(a, link)
{
    //@@ canary lemma_frame_owner
    if link != 0 {
        assert(link != m);
        assert(b[link] == a[link]);
        assert(link_ok(a, link));
        let t = a[link];
        if t.link.0 != 0 {
            assert(own(t.link.0 as int) == own(link));
            assert(t.link.0 as int != m);
            assert(b[t.link.0 as int] == a[t.link.0 as int]);
            lemma_frame_owner(st, a, b, own, t.link.0 as int, m, byte);
        }
    }
}

// entries on a chain carry the owner of its first entry
proof fn lemma_reach_owner(st: Seq<State>, sp: Seq<Transition>, own: spec_fn(int) -> int, a: int, z: int)
    requires owns(st, sp, own), reach(sp, a, z),
    ensures own(z) == own(a),
    decreases ms(sp, a)
{
    if a != z {
        lemma_reach_owner(st, sp, own, sp[a].link.0 as int, z);
    }
}

// bytes do not decrease along a chain
proof fn lemma_reach_bytes(sp: Seq<Transition>, a: int, z: int)
    requires reach(sp, a, z),
    ensures sp[z].byte >= sp[a].byte, a != z ==> sp[z].byte > sp[a].byte, 0 < z < sp.len(),
    decreases ms(sp, a)
{
    if a != z {
        lemma_reach_bytes(sp, sp[a].link.0 as int, z);
    }
}

// one step further along a chain
proof fn lemma_reach_step(sp: Seq<Transition>, a: int, z: int)
    requires reach(sp, a, z), link_ok(sp, z), sp[z].link.0 != 0, link_ok(sp, sp[z].link.0 as int),
    ensures reach(sp, a, sp[z].link.0 as int),
    decreases ms(sp, a)
{
    //@@ canary lemma_reach_step
    if a != z {
        lemma_reach_step(sp, sp[a].link.0 as int, z);
    } else {
        let y = sp[z].link.0 as int;
        assert(reach(sp, y, y));
    }
}

// INSERT after entry `m` (byte p < `byte`): `b` = `a` with a fresh entry L = {byte, next, old link of m}
// and m.link = L.  Walking from any entry `cur` that reaches `m`: the answer changes at `byte` only.
proof fn lemma_insert_after(a: Seq<Transition>, b: Seq<Transition>, cur: int, m: int, byte: u8, next: StateID, q: u8)
    requires
        all_links_ok(a),
        reach(a, cur, m),
        b.len() == a.len() + 1,
        a[m].byte < byte,
        a[m].link.0 == 0 || a[a[m].link.0 as int].byte > byte,
        forall|i: int| 0 < i < a.len() && i != m ==> #[trigger] b[i] == a[i],
        b[m].byte == a[m].byte, b[m].next == a[m].next,
        b[m].link.0 == a.len(),
        b[a.len() as int].byte == byte,
        b[a.len() as int].next == next,
        b[a.len() as int].link == a[m].link,
    ensures
        chain_look(b, cur, q) == (if q == byte { next } else { chain_look(a, cur, q) }),
    decreases ms(a, cur)
{
    //@@ canary lemma_insert_after
    let l = a.len() as int;
    assert(link_ok(a, cur));
    lemma_reach_bytes(a, cur, m);
    if cur != m {
        let nx = a[cur].link.0 as int;
        assert(b[cur] == a[cur]);
        assert(reach(a, nx, m));
        assert(link_ok(a, nx));
        // the successor keeps its byte in `b` (it is `m` or untouched), so the order clause still holds
        assert(b[nx].byte == a[nx].byte);
        assert(link_ok(b, cur));
        lemma_insert_after(a, b, nx, m, byte, next, q);
    } else {
        let ln = a[m].link.0 as int;
        let p = a[m].byte;
        assert(link_ok(a, m));
        if ln != 0 { assert(link_ok(a, ln)); assert(b[ln] == a[ln]); }
        assert(link_ok(b, l));
        assert(link_ok(b, m));
        if q > p {
            assert(chain_look(b, m, q) == chain_look(b, l, q));
            if q == byte {
                assert(chain_look(b, l, q) == next);
            } else if q < byte {
                assert(chain_look(b, l, q) == StateID(1));
                if ln != 0 { assert(chain_look(a, ln, q) == StateID(1)); }
                assert(chain_look(a, m, q) == StateID(1));
            } else {
                if ln != 0 {
                    lemma_frame_above(a, b, ln, byte as int, q);
                    assert(chain_look(b, l, q) == chain_look(b, ln, q));
                    assert(chain_look(a, m, q) == chain_look(a, ln, q));
                } else {
                    assert(chain_look(b, l, q) == StateID(1));
                    assert(chain_look(a, m, q) == StateID(1));
                }
            }
        }
    }
}

// UPDATE of entry `m` (its byte is `byte`): `b` = `a` with m.next = next
proof fn lemma_update_at(a: Seq<Transition>, b: Seq<Transition>, cur: int, m: int, byte: u8, next: StateID, q: u8)
    requires
        all_links_ok(a),
        reach(a, cur, m),
        b.len() == a.len(),
        a[m].byte == byte,
        forall|i: int| 0 < i < a.len() && i != m ==> #[trigger] b[i] == a[i],
        b[m].byte == byte, b[m].next == next, b[m].link == a[m].link,
    ensures
        chain_look(b, cur, q) == (if q == byte { next } else { chain_look(a, cur, q) }),
    decreases ms(a, cur)
{
    //@@ canary lemma_update_at
    assert(link_ok(a, cur));
    lemma_reach_bytes(a, cur, m);
    if cur != m {
        let nx = a[cur].link.0 as int;
        assert(b[cur] == a[cur]);
        assert(reach(a, nx, m));
        assert(link_ok(a, nx));
        assert(b[nx].byte == a[nx].byte);
        assert(link_ok(b, cur));
        lemma_update_at(a, b, nx, m, byte, next, q);
    } else {
        let ln = a[m].link.0 as int;
        if ln != 0 { assert(link_ok(a, ln)); assert(b[ln] == a[ln]); }
        assert(link_ok(b, m));
        if q > byte && ln != 0 {
            lemma_frame_above(a, b, ln, byte as int, q);
        }
    }
}

// after either kind of change every link of the new table is in order again
proof fn lemma_links_after_insert(a: Seq<Transition>, b: Seq<Transition>, m: int, byte: u8)
    requires
        all_links_ok(a), 0 < m < a.len(),
        b.len() == a.len() + 1,
        a[m].byte < byte,
        a[m].link.0 == 0 || a[a[m].link.0 as int].byte > byte,
        forall|i: int| 0 < i < a.len() && i != m ==> #[trigger] b[i] == a[i],
        b[m].byte == a[m].byte, b[m].link.0 == a.len(),
        b[a.len() as int].byte == byte, b[a.len() as int].link == a[m].link,
    ensures all_links_ok(b),
{
    //@@ canary lemma_links_after_insert
    assert forall|i: int| 0 < i < b.len() implies #[trigger] link_ok(b, i) by {
        if i < a.len() {
            assert(link_ok(a, i));
            if i != m && a[i].link.0 != 0 {
                let k = a[i].link.0 as int;
                assert(b[k].byte == a[k].byte);
            }
        } else {
            assert(link_ok(a, m));
            let k = a[m].link.0 as int;
            if k != 0 { assert(b[k] == a[k]); }
        }
    }
}

// ---- lemmas about match chains ------------------------------------------------------------------

spec fn mlinks_ok(mt: Seq<NMatch>) -> bool {
    &&& mt.len() >= 1 && mt[0].link.0 == 0
    &&& forall|i: int| 0 < i < mt.len() ==> ((#[trigger] mt[i]).link.0 == 0 || i < mt[i].link.0 < mt.len())
}

// entry `z` lies on the match chain that starts at entry `a`
spec fn mreach(mt: Seq<NMatch>, a: int, z: int) -> bool
    decreases mt.len() - a
{
    if a <= 0 || a >= mt.len() { false }
    else if a == z { true }
    else if mt[a].link.0 <= a || mt[a].link.0 >= mt.len() { false }
    else { mreach(mt, mt[a].link.0 as int, z) }
}

proof fn lemma_mreach_owner(st: Seq<State>, mt: Seq<NMatch>, own: spec_fn(int) -> int, a: int, z: int)
    requires mowns(st, mt, own), mreach(mt, a, z),
    ensures own(z) == own(a), 0 < z < mt.len(),
    decreases mt.len() - a
{
    if a != z { lemma_mreach_owner(st, mt, own, mt[a].link.0 as int, z); }
}

proof fn lemma_mreach_step(mt: Seq<NMatch>, a: int, z: int)
    requires mlinks_ok(mt), mreach(mt, a, z), mt[z].link.0 != 0,
    ensures mreach(mt, a, mt[z].link.0 as int),
    decreases mt.len() - a
{
    //@@ canary lemma_mreach_step
    if a != z { lemma_mreach_step(mt, mt[a].link.0 as int, z); }
    else { let y = mt[z].link.0 as int; assert(mreach(mt, y, y)); }
}

// a match chain none of whose entries is `m` lists the same patterns in a table that differs at `m` and beyond
proof fn lemma_mframe_owner(st: Seq<State>, a: Seq<NMatch>, b: Seq<NMatch>, own: spec_fn(int) -> int, link: int, m: int)
    requires
        a.len() <= b.len(), mlinks_ok(a), mowns(st, a, own),
        link == 0 || (0 < link < a.len() && own(link) != own(m)),
        forall|i: int| 0 < i < a.len() && i != m ==> #[trigger] b[i] == a[i],
    ensures mchain(b, link) == mchain(a, link),
    decreases a.len() - link
{
    //@@ canary lemma_mframe_owner
    if link != 0 {
        assert(b[link] == a[link]);
        let k = a[link].link.0 as int;
        if k != 0 {
            assert(own(k) == own(link));
            lemma_mframe_owner(st, a, b, own, k, m);
        }
    }
}

// APPEND: `b` = `a` plus a fresh last entry {pid, 0}, linked from the tail `t` of the chain
proof fn lemma_mappend(a: Seq<NMatch>, b: Seq<NMatch>, cur: int, t: int, pid: PatternID)
    requires
        mlinks_ok(a), mreach(a, cur, t), a[t].link.0 == 0,
        b.len() == a.len() + 1,
        forall|i: int| 0 < i < a.len() && i != t ==> #[trigger] b[i] == a[i],
        b[t].pid == a[t].pid, b[t].link.0 == a.len(),
        b[a.len() as int].pid == pid, b[a.len() as int].link.0 == 0,
    ensures mchain(b, cur) == mchain(a, cur).push(pid),
    decreases a.len() - cur
{
    //@@ canary lemma_mappend
    let l = a.len() as int;
    if cur != t {
        let k = a[cur].link.0 as int;
        assert(b[cur] == a[cur]);
        lemma_mappend(a, b, k, t, pid);
        assert(mchain(b, cur) == seq![a[cur].pid] + mchain(b, k));
        assert(mchain(a, cur) == seq![a[cur].pid] + mchain(a, k));
        assert((seq![a[cur].pid] + mchain(a, k)).push(pid) =~= seq![a[cur].pid] + mchain(a, k).push(pid));
    } else {
        assert(mchain(b, l) =~= seq![pid]);
        assert(mchain(b, t) == seq![a[t].pid] + mchain(b, l));
        assert(mchain(a, t) =~= seq![a[t].pid]);
        assert(seq![a[t].pid].push(pid) =~= seq![a[t].pid] + seq![pid]);
    }
}

// after an APPEND (see lemma_mappend) the fresh entry is the end of the chain
proof fn lemma_mreach_append(a: Seq<NMatch>, b: Seq<NMatch>, cur: int, t: int)
    requires
        mlinks_ok(a), mreach(a, cur, t), a[t].link.0 == 0,
        b.len() == a.len() + 1,
        forall|i: int| 0 < i < a.len() && i != t ==> #[trigger] b[i] == a[i],
        b[t].link.0 == a.len(),
    ensures mreach(b, cur, a.len() as int),
    decreases a.len() - cur
{
    //@@ canary lemma_mreach_append
    let l = a.len() as int;
    if cur != t {
        assert(b[cur] == a[cur]);
        lemma_mreach_append(a, b, a[cur].link.0 as int, t);
    } else {
        assert(mreach(b, l, l));
    }
}

impl NFA {
//@@ item src/nfa/noncontiguous.rs | pub(crate) const FAIL: StateID
//@@ sigsub 1 /pub\(crate\) const/ => const
//@@ sigsub 1 /StateID::new_unchecked\((\d+)\)/ => StateID(\1)
//@@ end

//@@ fn src/nfa/noncontiguous.rs | fn alloc_transition(&mut self) -> Result<StateID, BuildError> | res=r
//@@ sub 1 /StateID::new\(([^()]*\(\))\)\.map_err\(\|e\| \{.*?\}\)\?/ => state_id_new(\1)?
//@@ header
        ensures
            // C20: running out of identifiers is an error value; nothing is pushed then
            r is Err ==> *final(self) == *old(self),
            r is Ok ==> {
                &&& r->Ok_0.0 as int == old(self).sparse@.len()
                &&& final(self).sparse@ == old(self).sparse@.push(Transition { byte: 0, next: StateID(0), link: StateID(0) })
                &&& final(self).states@ == old(self).states@ && final(self).dense@ == old(self).dense@
                &&& final(self).matches@ == old(self).matches@ && final(self).byte_classes == old(self).byte_classes
                &&& final(self).pattern_lens@ == old(self).pattern_lens@ && final(self).special == old(self).special
            },
//@@ end

// R-idx: `self.states[prev]` -> `self.states[prev.as_usize()]` (body of `Index<StateID> for Vec<T>`)
// R-assertEq: `assert_eq!(a, b);` -> `assert(a == b);` (the runtime assertion becomes a proof obligation)
//@@ fn src/nfa/noncontiguous.rs | fn add_transition( | res=r
//@@ sub + /self\.(states|sparse)\[([a-z_]+)\]/ => self.\1[\2.as_usize()]
//@@ sub 1 /assert_eq!\(byte, self\.sparse\[link_next\.as_usize\(\)\]\.byte\);/ => assert(byte == self.sparse@[link_next.0 as int].byte);
//@@ header
        requires bwf(old(self)), prev.0 < old(self).states@.len(),
        ensures
            r is Ok ==> {
                &&& bwf(final(self))
                // the edge that was added is the edge that is found ...
                &&& look(final(self), prev.0 as int, byte) == next
                // ... every other byte of this state and every byte of every other state keep their answer
                &&& forall|q: u8| q != byte ==> #[trigger] look(final(self), prev.0 as int, q) == look(old(self), prev.0 as int, q)
                &&& forall|s: int, q: u8| 0 <= s < old(self).states@.len() && s != prev.0 ==> #[trigger] look(final(self), s, q) == look(old(self), s, q)
                // a densified state's row is written together with its chain (C04), nothing else in the dense table
                &&& (old(self).states@[prev.0 as int].dense.0 != 0 ==> final(self).dense@ == old(self).dense@.update(
                        old(self).states@[prev.0 as int].dense.0 + old(self).byte_classes.0[byte as int], next))
                &&& (old(self).states@[prev.0 as int].dense.0 == 0 ==> final(self).dense@ == old(self).dense@)
                // frame
                &&& same_states_but_sparse(old(self).states@, final(self).states@)
                &&& final(self).matches@ == old(self).matches@ && final(self).byte_classes == old(self).byte_classes
                &&& final(self).pattern_lens@ == old(self).pattern_lens@ && final(self).special == old(self).special
            },
//@@ before /if self\.states\[prev\.as_usize\(\)\]\.dense != StateID::ZERO/
        let ghost st0 = self.states@;
        let ghost sp0 = self.sparse@;
        let ghost own = choose|own: spec_fn(int) -> int| owns(st0, sp0, own);
        let ghost mown = choose|own: spec_fn(int) -> int| mowns(st0, self.matches@, own);
        let ghost p = prev.0 as int;
        assert(self.byte_classes.0[byte as int] < alphabet_len(self));
        assert(self.states@[p].dense.0 != 0 ==> self.states@[p].dense.0 + alphabet_len(self) <= self.dense@.len());
//@@ before 1/2 /return Ok\(\(\)\);/
            proof {
                let l = sp0.len() as int;
                let sp1 = self.sparse@;
                let h = head.0 as int;
                assert(sp1.len() == l + 1);
                assert forall|i: int| 0 < i < sp1.len() implies #[trigger] link_ok(sp1, i) by {
                    if i < l { assert(link_ok(sp0, i)); assert(sp1[i] == sp0[i]); if sp0[i].link.0 != 0 { assert(sp1[sp0[i].link.0 as int] == sp0[sp0[i].link.0 as int]); } }
                    else { if h != 0 { assert(sp1[h] == sp0[h]); } }
                }
                let own2 = |i: int| if i == l { p } else { own(i) };
                assert(owns(self.states@, sp1, own2)) by {
                    assert forall|s: int| 0 <= s < self.states@.len() && (#[trigger] self.states@[s]).sparse.0 != 0 implies own2(self.states@[s].sparse.0 as int) == s by {
                        if s != p { assert(self.states@[s] == st0[s]); }
                    }
                    assert forall|i: int| 0 < i < sp1.len() && (#[trigger] sp1[i]).link.0 != 0 implies own2(sp1[i].link.0 as int) == own2(i) by {
                        if i < l { assert(sp1[i] == sp0[i]); assert(link_ok(sp0, i)); }
                        else { assert(st0[p].sparse.0 != 0); }
                    }
                }
                assert(mowns(self.states@, self.matches@, mown)) by {
                    assert forall|s: int| 0 <= s < self.states@.len() && (#[trigger] self.states@[s]).matches.0 != 0 implies mown(self.states@[s].matches.0 as int) == s by {
                        assert(self.states@[s].matches == st0[s].matches);
                    }
                }
                assert forall|q: u8| true implies #[trigger] chain_look(sp1, l, q) == (if q == byte { next } else { chain_look(sp0, h, q) }) by {
                    assert(link_ok(sp1, l));
                    if q > byte {
                        if h != 0 { lemma_frame_above(sp0, sp1, h, -1, q); }
                    } else if q < byte {
                        if h != 0 { assert(link_ok(sp0, h)); }
                    }
                }
                assert forall|s: int, q: u8| 0 <= s < st0.len() && s != p implies #[trigger] look(self, s, q) == chain_look(sp0, st0[s].sparse.0 as int, q) by {
                    assert(self.states@[s].sparse == st0[s].sparse);
                    lemma_frame_above(sp0, sp1, st0[s].sparse.0 as int, -1, q);
                }
            }
//@@ before 2/2 /return Ok\(\(\)\);/
            proof {
                let sp1 = self.sparse@;
                let h = head.0 as int;
                assert(link_ok(sp0, h));
                assert(reach(sp0, h, h));
                assert forall|i: int| 0 < i < sp1.len() implies #[trigger] link_ok(sp1, i) by {
                    assert(link_ok(sp0, i));
                    if sp0[i].link.0 != 0 { assert(sp1[sp0[i].link.0 as int].byte == sp0[sp0[i].link.0 as int].byte); }
                }
                assert(owns(self.states@, sp1, own)) by {
                    assert forall|i: int| 0 < i < sp1.len() && (#[trigger] sp1[i]).link.0 != 0 implies own(sp1[i].link.0 as int) == own(i) by {
                        assert(sp1[i].link == sp0[i].link);
                    }
                }
                assert(mowns(self.states@, self.matches@, mown));
                assert forall|q: u8| true implies #[trigger] chain_look(sp1, h, q) == (if q == byte { next } else { chain_look(sp0, h, q) }) by {
                    lemma_update_at(sp0, sp1, h, h, byte, next, q);
                }
                assert forall|s: int, q: u8| 0 <= s < st0.len() && s != p implies #[trigger] look(self, s, q) == chain_look(sp0, st0[s].sparse.0 as int, q) by {
                    let hs = st0[s].sparse.0 as int;
                    if hs != 0 { assert(own(hs) == s); assert(own(h) == p); }
                    lemma_frame_owner(st0, sp0, sp1, own, hs, h, q);
                }
            }
//@@ after /self\.sparse\[link_prev\.as_usize\(\)\]\.link = link;/
            proof {
                let l = sp0.len() as int;
                let sp1 = self.sparse@;
                let m = link_prev.0 as int;
                let h = head.0 as int;
                assert(sp1.len() == l + 1);
                assert(link_ok(sp0, m));
                lemma_links_after_insert(sp0, sp1, m, byte);
                lemma_reach_owner(st0, sp0, own, h, m);
                assert(own(h) == p);
                let own2 = |i: int| if i == l { p } else { own(i) };
                assert(owns(self.states@, sp1, own2)) by {
                    assert forall|i: int| 0 < i < sp1.len() && (#[trigger] sp1[i]).link.0 != 0 implies own2(sp1[i].link.0 as int) == own2(i) by {
                        if i < l && i != m { assert(sp1[i] == sp0[i]); assert(link_ok(sp0, i)); }
                    }
                }
                assert(mowns(self.states@, self.matches@, mown));
                assert forall|q: u8| true implies #[trigger] chain_look(sp1, h, q) == (if q == byte { next } else { chain_look(sp0, h, q) }) by {
                    lemma_insert_after(sp0, sp1, h, m, byte, next, q);
                }
                assert forall|s: int, q: u8| 0 <= s < st0.len() && s != p implies #[trigger] look(self, s, q) == chain_look(sp0, st0[s].sparse.0 as int, q) by {
                    let hs = st0[s].sparse.0 as int;
                    if hs != 0 { assert(own(hs) == s); }
                    lemma_frame_owner(st0, sp0, sp1, own, hs, m, q);
                }
            }
//@@ after /self\.sparse\[link_next\.as_usize\(\)\]\.next = next;/
            proof {
                let sp1 = self.sparse@;
                let m = link_next.0 as int;
                let h = head.0 as int;
                assert(link_ok(sp0, link_prev.0 as int));
                assert(link_ok(sp0, m));
                lemma_reach_step(sp0, h, link_prev.0 as int);
                lemma_reach_owner(st0, sp0, own, h, m);
                assert(own(h) == p);
                assert forall|i: int| 0 < i < sp1.len() implies #[trigger] link_ok(sp1, i) by {
                    assert(link_ok(sp0, i));
                    if sp0[i].link.0 != 0 { assert(sp1[sp0[i].link.0 as int].byte == sp0[sp0[i].link.0 as int].byte); }
                }
                assert(owns(self.states@, sp1, own)) by {
                    assert forall|i: int| 0 < i < sp1.len() && (#[trigger] sp1[i]).link.0 != 0 implies own(sp1[i].link.0 as int) == own(i) by {
                        assert(sp1[i].link == sp0[i].link);
                    }
                }
                assert(mowns(self.states@, self.matches@, mown));
                assert forall|q: u8| true implies #[trigger] chain_look(sp1, h, q) == (if q == byte { next } else { chain_look(sp0, h, q) }) by {
                    lemma_update_at(sp0, sp1, h, m, byte, next, q);
                }
                assert forall|s: int, q: u8| 0 <= s < st0.len() && s != p implies #[trigger] look(self, s, q) == chain_look(sp0, st0[s].sparse.0 as int, q) by {
                    let hs = st0[s].sparse.0 as int;
                    if hs != 0 { assert(own(hs) == s); }
                    lemma_frame_owner(st0, sp0, sp1, own, hs, m, q);
                }
            }
//@@ loop 1
            invariant
                self.sparse@ == sp0, self.states@ == st0, all_links_ok(sp0),
                0 < link_prev.0 < sp0.len(), reach(sp0, head.0 as int, link_prev.0 as int),
                link_next == sp0[link_prev.0 as int].link, link_next.0 < sp0.len(),
                sp0[link_prev.0 as int].byte < byte,
            decreases ms(sp0, link_prev.0 as int),
//@@ before /link_prev = link_next;/
            proof {
                assert(link_ok(sp0, link_prev.0 as int));
                assert(link_ok(sp0, link_next.0 as int));
                lemma_reach_step(sp0, head.0 as int, link_prev.0 as int);
            }
//@@ after /let \(mut link_prev, mut link_next\) =[^;]*;/
        proof {
            assert(link_ok(sp0, head.0 as int));
            assert(reach(sp0, head.0 as int, head.0 as int));
        }
//@@ end

//@@ fn src/nfa/noncontiguous.rs | fn alloc_match(&mut self) -> Result<StateID, BuildError> | res=r
//@@ sub 1 /Match::default\(\)/ => NMatch::default()
//@@ sub 1 /StateID::new\(([^()]*\(\))\)\.map_err\(\|e\| \{.*?\}\)\?/ => state_id_new(\1)?
//@@ header
        ensures
            r is Err ==> *final(self) == *old(self),
            r is Ok ==> {
                &&& r->Ok_0.0 as int == old(self).matches@.len()
                &&& final(self).matches@ == old(self).matches@.push(NMatch { pid: PatternID(0), link: StateID(0) })
                &&& final(self).states@ == old(self).states@ && final(self).dense@ == old(self).dense@
                &&& final(self).sparse@ == old(self).sparse@ && final(self).byte_classes == old(self).byte_classes
                &&& final(self).pattern_lens@ == old(self).pattern_lens@ && final(self).special == old(self).special
            },
//@@ end

//@@ fn src/nfa/noncontiguous.rs | fn add_match( | res=r
//@@ sub + /self\.(states|matches)\[([a-z_]+)\]/ => self.\1[\2.as_usize()]
//@@ header
        requires bwf(old(self)), sid.0 < old(self).states@.len(),
        ensures
            r is Ok ==> {
                &&& bwf(final(self))
                // the new pattern is listed last (supply order is list order), every other list is untouched
                &&& mlist(final(self), sid.0 as int) == mlist(old(self), sid.0 as int).push(pid)
                &&& forall|s: int| 0 <= s < old(self).states@.len() && s != sid.0 ==> #[trigger] mlist(final(self), s) == mlist(old(self), s)
                // frame
                &&& final(self).states@.len() == old(self).states@.len()
                &&& forall|s: int| 0 <= s < old(self).states@.len() ==> {
                        &&& (#[trigger] final(self).states@[s]).sparse == old(self).states@[s].sparse
                        &&& final(self).states@[s].dense == old(self).states@[s].dense
                        &&& final(self).states@[s].fail == old(self).states@[s].fail
                        &&& final(self).states@[s].depth == old(self).states@[s].depth
                    }
                &&& final(self).sparse@ == old(self).sparse@ && final(self).dense@ == old(self).dense@
                &&& final(self).byte_classes == old(self).byte_classes
                &&& final(self).pattern_lens@ == old(self).pattern_lens@ && final(self).special == old(self).special
            },
//@@ after /\A\{/
        let ghost st0 = self.states@;
        let ghost mt0 = self.matches@;
        let ghost own = choose|own: spec_fn(int) -> int| owns(st0, self.sparse@, own);
        let ghost mown = choose|own: spec_fn(int) -> int| mowns(st0, mt0, own);
        let ghost p = sid.0 as int;
//@@ loop 1
            invariant
                self.matches@ == mt0, self.states@ == st0, mlinks_ok(mt0),
                link.0 < mt0.len(),
                head.0 == 0 ==> link.0 == 0,
                head.0 != 0 ==> mreach(mt0, head.0 as int, link.0 as int),
            decreases mt0.len() - link.0,
//@@ before /link = self\.matches\[link\.as_usize\(\)\]\.link;/
            proof {
                if head.0 != 0 { lemma_mreach_step(mt0, head.0 as int, link.0 as int); }
            }
//@@ before /Ok\(\(\)\)\s*\}\s*\Z/
        proof {
            let l = mt0.len() as int;
            let mt1 = self.matches@;
            let h = head.0 as int;
            let t = link.0 as int;
            assert(mt1.len() == l + 1);
            if h != 0 { lemma_mreach_owner(st0, mt0, mown, h, t); assert(mown(h) == p); }
            let own2 = |i: int| if i == l { p } else { mown(i) };
            assert(mlinks_ok(mt1)) by {
                assert forall|i: int| 0 < i < mt1.len() implies ((#[trigger] mt1[i]).link.0 == 0 || i < mt1[i].link.0 < mt1.len()) by {
                    if i < l && i != t { assert(mt1[i] == mt0[i]); }
                }
            }
            assert(mowns(self.states@, mt1, own2)) by {
                assert forall|s: int| 0 <= s < self.states@.len() && (#[trigger] self.states@[s]).matches.0 != 0 implies own2(self.states@[s].matches.0 as int) == s by {
                    if s != p { assert(self.states@[s] == st0[s]); }
                }
                assert forall|i: int| 0 < i < mt1.len() && (#[trigger] mt1[i]).link.0 != 0 implies own2(mt1[i].link.0 as int) == own2(i) by {
                    if i < l && i != t { assert(mt1[i] == mt0[i]); }
                }
            }
            assert(owns(self.states@, self.sparse@, own)) by {
                assert forall|s: int| 0 <= s < self.states@.len() && (#[trigger] self.states@[s]).sparse.0 != 0 implies own(self.states@[s].sparse.0 as int) == s by {
                    assert(self.states@[s].sparse == st0[s].sparse);
                }
            }
            if h != 0 {
                lemma_mappend(mt0, mt1, h, t, pid);
            } else {
                assert(mchain(mt1, l) =~= seq![pid]);
                assert(mchain(mt0, 0) =~= Seq::<PatternID>::empty());
                assert(Seq::<PatternID>::empty().push(pid) =~= seq![pid]);
            }
            assert forall|s: int| 0 <= s < st0.len() && s != p implies #[trigger] mlist(self, s) == mchain(mt0, st0[s].matches.0 as int) by {
                let hs = st0[s].matches.0 as int;
                assert(self.states@[s].matches == st0[s].matches);
                if hs != 0 { assert(mown(hs) == s); }
                if h != 0 {
                    lemma_mframe_owner(st0, mt0, mt1, mown, hs, t);
                } else {
                    // nothing below `l` changed: frame with an index that is no entry
                    lemma_mframe_owner(st0, mt0, mt1, |i: int| if i == l { -1int } else { mown(i) }, hs, l);
                }
            }
        }
//@@ end

//@@ fn src/nfa/noncontiguous.rs | fn next_link( | res=r
//@@ sub + /self\.(states|sparse)\[([a-z_]+)\]/ => self.\1[\2.as_usize()]
//@@ sub 1 /prev\.map_or\(self\.states\[sid\.as_usize\(\)\]\.sparse, \|p\| self\.sparse\[p\.as_usize\(\)\]\.link\)/ => match prev { None => self.states[sid.as_usize()].sparse, Some(p) => self.sparse[p.as_usize()].link }
//@@ header
        requires sid.0 < self.states@.len(), prev is Some ==> prev->Some_0.0 < self.sparse@.len(),
        ensures
            ({ let link = if prev is Some { self.sparse@[prev->Some_0.0 as int].link } else { self.states@[sid.0 as int].sparse };
               r == (if link.0 == 0 { None::<StateID> } else { Some(link) }) }),
//@@ end

// R-expect: `SmallIndex::new(depth).expect(..)` -> `small_index_new_expect(depth)` (panics above the limit:
// a precondition here; the callers pass pattern lengths that were checked against the same limit)
//@@ fn src/nfa/noncontiguous.rs | fn alloc_state(&mut self, depth: usize) -> Result<StateID, BuildError> | res=r
//@@ sub 1 /SmallIndex::new\(depth\)\s*\.expect\("[^"]*"\)/ => small_index_new_expect(depth)
//@@ sub 1 /StateID::new\(([^()]*\(\))\)\.map_err\(\|e\| \{.*?\}\)\?/ => state_id_new(\1)?
//@@ header
        requires depth <= 0x7FFF_FFFE,
        ensures
            r is Err ==> *final(self) == *old(self),
            r is Ok ==> {
                &&& r->Ok_0.0 as int == old(self).states@.len()
                &&& final(self).states@.len() == old(self).states@.len() + 1
                &&& forall|s: int| 0 <= s < old(self).states@.len() ==> #[trigger] final(self).states@[s] == old(self).states@[s]
                // a fresh state: no transitions, no dense row, no matches, fails to the unanchored start
                &&& final(self).states@[old(self).states@.len() as int].sparse.0 == 0
                &&& final(self).states@[old(self).states@.len() as int].dense.0 == 0
                &&& final(self).states@[old(self).states@.len() as int].matches.0 == 0
                &&& final(self).states@[old(self).states@.len() as int].fail == old(self).special.start_unanchored_id
                &&& final(self).states@[old(self).states@.len() as int].depth.0 as usize == depth
                &&& final(self).sparse@ == old(self).sparse@ && final(self).dense@ == old(self).dense@
                &&& final(self).matches@ == old(self).matches@ && final(self).byte_classes == old(self).byte_classes
                &&& final(self).pattern_lens@ == old(self).pattern_lens@ && final(self).special == old(self).special
                &&& (bwf(old(self)) ==> bwf(final(self)))
            },
//@@ before /Ok\(id\)\s*\}\s*\Z/
        proof {
            if bwf(old(self)) {
                let own = choose|own: spec_fn(int) -> int| owns(old(self).states@, old(self).sparse@, own);
                let mown = choose|own: spec_fn(int) -> int| mowns(old(self).states@, old(self).matches@, own);
                assert(owns(self.states@, self.sparse@, own)) by {
                    assert forall|s: int| 0 <= s < self.states@.len() && (#[trigger] self.states@[s]).sparse.0 != 0 implies own(self.states@[s].sparse.0 as int) == s by {
                        if s < old(self).states@.len() { assert(self.states@[s] == old(self).states@[s]); }
                    }
                }
                assert(mowns(self.states@, self.matches@, mown)) by {
                    assert forall|s: int| 0 <= s < self.states@.len() && (#[trigger] self.states@[s]).matches.0 != 0 implies mown(self.states@[s].matches.0 as int) == s by {
                        if s < old(self).states@.len() { assert(self.states@[s] == old(self).states@[s]); }
                    }
                }
                assert forall|s: int| 0 <= s < self.states@.len() implies {
                    &&& (#[trigger] self.states@[s]).sparse.0 < self.sparse@.len()
                    &&& self.states@[s].matches.0 < self.matches@.len()
                    &&& (self.states@[s].dense.0 != 0 ==> self.states@[s].dense.0 + alphabet_len(self) <= self.dense@.len())
                } by {
                    if s < old(self).states@.len() { assert(self.states@[s] == old(self).states@[s]); }
                }
            }
        }
//@@ end

// R-rename: `Match {` -> `NMatch {`
//@@ fn src/nfa/noncontiguous.rs | fn copy_matches( | res=r
//@@ sub + /self\.(states|matches)\[([a-z_]+)\]/ => self.\1[\2.as_usize()]
//@@ sub 1 /StateID::new\(([^()]*\(\))\)\.map_err\(\|e\| \{.*?\}\)\?/ => state_id_new(\1)?
//@@ sub 1 /self\.matches\.push\(Match \{\s*pid: self\.matches\[(\w+)\.as_usize\(\)\]\.pid,\s*link: ([\w:]+),\s*\}\);/ => let src_pid = self.matches[\1.as_usize()].pid; self.matches.push(NMatch { pid: src_pid, link: \2 });
//@@ header
        requires bwf(old(self)), src.0 < old(self).states@.len(), dst.0 < old(self).states@.len(), src.0 != dst.0,
        ensures
            r is Ok ==> {
                &&& bwf(final(self))
                // the copied patterns follow the state's own, in the order of the source list (C03: once each)
                &&& mlist(final(self), dst.0 as int) == mlist(old(self), dst.0 as int) + mlist(old(self), src.0 as int)
                &&& forall|s: int| 0 <= s < old(self).states@.len() && s != dst.0 ==> #[trigger] mlist(final(self), s) == mlist(old(self), s)
                // frame
                &&& final(self).states@.len() == old(self).states@.len()
                &&& forall|s: int| 0 <= s < old(self).states@.len() ==> {
                        &&& (#[trigger] final(self).states@[s]).sparse == old(self).states@[s].sparse
                        &&& final(self).states@[s].dense == old(self).states@[s].dense
                        &&& final(self).states@[s].fail == old(self).states@[s].fail
                        &&& final(self).states@[s].depth == old(self).states@[s].depth
                    }
                &&& final(self).sparse@ == old(self).sparse@ && final(self).dense@ == old(self).dense@
                &&& final(self).byte_classes == old(self).byte_classes
                &&& final(self).pattern_lens@ == old(self).pattern_lens@ && final(self).special == old(self).special
            },
//@@ after /\A\{/
        let ghost st0 = self.states@;
        let ghost mt0 = self.matches@;
        let ghost l0 = mt0.len() as int;
        let ghost own = choose|own: spec_fn(int) -> int| owns(st0, self.sparse@, own);
        let ghost mown = choose|own: spec_fn(int) -> int| mowns(st0, mt0, own);
        let ghost d = dst.0 as int;
        let ghost sr = src.0 as int;
        let ghost own2 = |i: int| if i >= l0 { d } else { mown(i) };
//@@ loop 1
            invariant
                self.matches@ == mt0, self.states@ == st0, mlinks_ok(mt0),
                link_dst.0 < mt0.len(),
                head_dst.0 == 0 ==> link_dst.0 == 0,
                head_dst.0 != 0 ==> mreach(mt0, head_dst.0 as int, link_dst.0 as int),
            decreases mt0.len() - link_dst.0,
//@@ before /link_dst = self\.matches\[link_dst\.as_usize\(\)\]\.link;/
            proof {
                if head_dst.0 != 0 { lemma_mreach_step(mt0, head_dst.0 as int, link_dst.0 as int); }
            }
//@@ before /let mut link_src =/
        let ghost t0 = link_dst.0 as int;
        proof {
            if head_dst.0 != 0 { lemma_mreach_owner(st0, mt0, mown, head_dst.0 as int, t0); assert(mown(head_dst.0 as int) == d); }
            assert(st0[sr].matches.0 != 0 ==> mown(st0[sr].matches.0 as int) == sr);
            if st0[sr].matches.0 != 0 { assert(mreach(mt0, st0[sr].matches.0 as int, st0[sr].matches.0 as int)); }
            assert(mchain(mt0, head_dst.0 as int) + mchain(mt0, st0[sr].matches.0 as int) == mlist(old(self), d) + mlist(old(self), sr));
        }
//@@ loop 2
            invariant
                d == dst.0, sr == src.0, d != sr, 0 <= d < st0.len(), 0 <= sr < st0.len(), l0 == mt0.len(),
                forall|i: int| #[trigger] own2(i) == (if i >= l0 { d } else { mown(i) }),
                0 <= t0 < l0,
                mlinks_ok(self.matches@), self.matches@.len() >= l0, mlinks_ok(mt0),
                self.states@.len() == st0.len(),
                forall|s: int| 0 <= s < st0.len() && s != d ==> #[trigger] self.states@[s] == st0[s],
                self.states@[d].sparse == st0[d].sparse && self.states@[d].dense == st0[d].dense
                    && self.states@[d].fail == st0[d].fail && self.states@[d].depth == st0[d].depth,
                self.states@[d].matches.0 < self.matches@.len(),
                self.sparse@ == old(self).sparse@ && self.dense@ == old(self).dense@ && self.byte_classes == old(self).byte_classes,
                self.pattern_lens@ == old(self).pattern_lens@ && self.special == old(self).special,
                // old entries other than the old tail of dst are untouched; the tail keeps its pattern
                forall|i: int| 0 < i < l0 && i != t0 ==> #[trigger] self.matches@[i] == mt0[i],
                t0 != 0 ==> self.matches@[t0].pid == mt0[t0].pid && mown(t0) == d,
                mowns(st0, mt0, mown),
                mowns(self.states@, self.matches@, own2),
                // the source chain is walked in the old table
                link_src.0 == 0 || (0 < link_src.0 < l0 && mown(link_src.0 as int) == sr),
                // the tail of dst's chain
                link_dst.0 == 0 ==> self.states@[d].matches.0 == 0,
                link_dst.0 != 0 ==> mreach(self.matches@, self.states@[d].matches.0 as int, link_dst.0 as int) && self.matches@[link_dst.0 as int].link.0 == 0,
                link_dst.0 < self.matches@.len(),
                link_dst.0 as int == t0 || link_dst.0 >= l0,
                // what is listed so far plus what is still to copy
                mchain(self.matches@, self.states@[d].matches.0 as int) + mchain(mt0, link_src.0 as int) == mlist(old(self), d) + mlist(old(self), sr),
            decreases (if link_src.0 == 0 { 0int } else { l0 - link_src.0 }),
//@@ before /let new_match_link =/
            let ghost pre = self.matches@;
            let ghost st_a = self.states@;
            let ghost t_old = link_dst.0 as int;
//@@ before /link_src = self\.matches\[link_src\.as_usize\(\)\]\.link;/
            proof {
                let b = self.matches@;
                let lp = pre.len() as int;
                let ls = link_src.0 as int;
                let hp = st_a[d].matches.0 as int;
                let t = t_old;
                assert(ls != t0);
                assert(pre[ls] == mt0[ls]);
                assert(src_pid == mt0[ls].pid);
                assert(b.len() == lp + 1);
                assert(b[ls] == mt0[ls]);
                assert(mlinks_ok(b)) by {
                    assert forall|i: int| 0 < i < b.len() implies ((#[trigger] b[i]).link.0 == 0 || i < b[i].link.0 < b.len()) by {
                        if i < lp && i != t { assert(b[i] == pre[i]); }
                    }
                }
                assert(mowns(self.states@, b, own2)) by {
                    assert forall|s: int| 0 <= s < self.states@.len() && (#[trigger] self.states@[s]).matches.0 != 0 implies own2(self.states@[s].matches.0 as int) == s by {
                        if s != d { assert(self.states@[s] == st_a[s]); }
                    }
                    assert forall|i: int| 0 < i < b.len() && (#[trigger] b[i]).link.0 != 0 implies own2(b[i].link.0 as int) == own2(i) by {
                        if i < lp && i != t { assert(b[i] == pre[i]); }
                        if i == t && t != 0 { lemma_mreach_owner(st_a, pre, own2, hp, t); assert(own2(hp) == d); }
                    }
                }
                assert forall|i: int| 0 < i < l0 && i != t0 implies #[trigger] b[i] == mt0[i] by {
                    assert(pre[i] == mt0[i]);
                    if i == t { assert(t >= l0); }
                }
                let nx = mt0[ls].link.0 as int;
                assert(mchain(mt0, ls) =~= seq![src_pid] + mchain(mt0, nx)) by {
                    if nx == 0 { assert(mchain(mt0, 0) =~= Seq::<PatternID>::empty()); }
                }
                if nx != 0 { assert(mown(nx) == mown(ls)); }
                if t != 0 {
                    lemma_mappend(pre, b, hp, t, src_pid);
                    lemma_mreach_append(pre, b, hp, t);
                    assert(mchain(pre, hp).push(src_pid) + mchain(mt0, nx) =~= mchain(pre, hp) + (seq![src_pid] + mchain(mt0, nx)));
                } else {
                    assert(hp == 0);
                    assert(mreach(b, lp, lp));
                    assert(mchain(b, lp) =~= seq![src_pid]);
                    assert(mchain(pre, 0) =~= Seq::<PatternID>::empty());
                    assert(seq![src_pid] + mchain(mt0, nx) =~= Seq::<PatternID>::empty() + (seq![src_pid] + mchain(mt0, nx)));
                }
            }
//@@ before /Ok\(\(\)\)\s*\}\s*\Z/
        proof {
            let b = self.matches@;
            assert(mchain(mt0, 0) =~= Seq::<PatternID>::empty());
            assert(mchain(b, self.states@[d].matches.0 as int) + Seq::<PatternID>::empty() =~= mchain(b, self.states@[d].matches.0 as int));
            assert forall|s: int| 0 <= s < st0.len() && s != d implies #[trigger] mlist(self, s) == mchain(mt0, st0[s].matches.0 as int) by {
                let hs = st0[s].matches.0 as int;
                assert(self.states@[s] == st0[s]);
                if hs != 0 { assert(mown(hs) == s); }
                if t0 != 0 {
                    lemma_mframe_owner(st0, mt0, b, mown, hs, t0);
                } else {
                    lemma_mframe_owner(st0, mt0, b, |i: int| if i == l0 { -1int } else { mown(i) }, hs, l0);
                }
            }
            assert(owns(self.states@, self.sparse@, own)) by {
                assert forall|s: int| 0 <= s < self.states@.len() && (#[trigger] self.states@[s]).sparse.0 != 0 implies own(self.states@[s].sparse.0 as int) == s by {
                    assert(self.states@[s].sparse == st0[s].sparse);
                }
            }
            assert forall|s: int| 0 <= s < self.states@.len() implies {
                &&& (#[trigger] self.states@[s]).sparse.0 < self.sparse@.len()
                &&& self.states@[s].matches.0 < self.matches@.len()
                &&& (self.states@[s].dense.0 != 0 ==> self.states@[s].dense.0 + alphabet_len(self) <= self.dense@.len())
            } by {
                assert(st0[s].sparse.0 < old(self).sparse@.len());
                if s != d { assert(self.states@[s] == st0[s]); }
            }
        }
//@@ end

}

} // verus!
fn main() {}
