// UNIT u3_cnfa — the low-level Automaton accessors of nfa::contiguous::NFA (the default engine
// for larger pattern sets) under the representation invariant `cnfa_wf` of the packed u32 state
// encoding.  Properties: C16 (transitions never index outside `repr`, a state offset leads to a
// state offset, FAIL is never handed out, dead absorbing, match lists inside `repr` with valid
// pattern ids), C19 (the failure loop terminates; failure steps are paid for by the rank of the
// state; a sparse state is scanned once), C04 (dense / one-transition / sparse encodings all
// answer `c_lookup`), C13 (start_state never fails for an NFA).
// The invariant is established by contiguous::Builder / State::write (out of reach) and is
// executed on real NFAs by the bounded check `repr-cnfa` through hook H1.
// Assumption A-endian: `u32::to_ne_bytes` is little-endian (x86_64 / aarch64 targets).
// VERUS-RLIMIT 120
use vstd::prelude::*;
verus! {

//@@ include types.inc

impl StateID {
    // model of the macro-generated items of util/primitives.rs (A-ids)
    fn as_usize(&self) -> (r: usize) ensures r == self.0 as usize { self.0 as usize }
    fn from_u32_unchecked(index: u32) -> (r: StateID) ensures r.0 == index { StateID(index) }
}
impl PatternID {
    fn as_usize(&self) -> (r: usize) ensures r == self.0 as usize { self.0 as usize }
    fn from_u32_unchecked(index: u32) -> (r: PatternID) ensures r.0 == index { PatternID(index) }
}

#[derive(Clone, Copy, Debug)]
struct SmallIndex(u32);
impl SmallIndex {
//@@ fn src/util/primitives.rs | pub const fn as_usize(&self) -> usize | within=impl SmallIndex | res=r
//@@ sigsub 1 /pub const fn/ => fn
//@@ header
        ensures r == self.0 as usize
//@@ end
}

// the conversion helpers of util/int.rs that the contiguous NFA uses (R-trait-subset: the trait
// declarations list only these methods; the bodies are cut from the repository)
trait U16 { fn low_u8(self) -> u8; fn high_u8(self) -> u8; }
trait U32 { fn as_usize(self) -> usize; fn low_u8(self) -> u8; fn low_u16(self) -> u16; fn high_u16(self) -> u16; }
impl U16 for u16 {
//@@ fn src/util/int.rs | fn low_u8(self) -> u8 | within=impl U16 for u16 | res=r
//@@ header
        ensures r == self as u8
//@@ end
//@@ fn src/util/int.rs | fn high_u8(self) -> u8 | within=impl U16 for u16 | res=r
//@@ header
        ensures r == (self >> 8) as u8
//@@ end
}
impl U32 for u32 {
    // release branch `self as usize`; the debug branch is `usize::try_from(self).expect(..)`,
    // equal on 64-bit targets
    fn as_usize(self) -> (r: usize) ensures r == self as usize { self as usize }
//@@ fn src/util/int.rs | fn low_u16(self) -> u16 | within=impl U32 for u32 | res=r
//@@ header
        ensures r == self as u16
//@@ end
//@@ fn src/util/int.rs | fn low_u8(self) -> u8 | within=impl U32 for u32 | res=r
//@@ header
        ensures r == self as u8
//@@ end
//@@ fn src/util/int.rs | fn high_u16(self) -> u16 | within=impl U32 for u32 | res=r
//@@ header
        ensures r == (self >> 16) as u16
//@@ end
}

// R-neBytes: `x.to_ne_bytes()` -> this trusted stub (A-endian)
#[verifier::external_body]
fn u32_to_ne_bytes(x: u32) -> (r: [u8; 4])
    ensures r@[0] == byte_of(x, 0), r@[1] == byte_of(x, 1), r@[2] == byte_of(x, 2), r@[3] == byte_of(x, 3),
{ x.to_ne_bytes() }

struct Prefilter { x: u8 }

//@@ item src/util/alphabet.rs | pub(crate) struct ByteClasses
//@@ sigsub 1 /pub\(crate\) struct/ => struct
//@@ end

impl ByteClasses {
//@@ fn src/util/alphabet.rs | pub(crate) fn get(&self, byte: u8) -> u8 | res=r
//@@ sigsub 1 /pub\(crate\) fn/ => fn
//@@ header
        ensures r == self.0[byte as int]
//@@ end
}

//@@ item src/util/special.rs | pub(crate) struct Special
//@@ sigsub 1 /pub\(crate\) struct/ => struct
//@@ sub 4 /pub\(crate\) / =>
//@@ end

//@@ item src/nfa/contiguous.rs | pub struct NFA
//@@ sigsub 1 /pub struct/ => struct
//@@ end

// R-namespace: `State` is only a namespace for the decoding functions below (its fields are
// never read by them)
struct State { x: u8 }

// ---- the packed encoding, as mathematics -----------------------------------------------------

spec fn byte_of(x: u32, j: int) -> u8 {
    if j == 0 { (x & 0xff) as u8 } else if j == 1 { ((x >> 8) & 0xff) as u8 }
    else if j == 2 { ((x >> 16) & 0xff) as u8 } else { ((x >> 24) & 0xff) as u8 }
}

spec fn kind_of(n: &NFA, o: int) -> u32 { n.repr@[o] & 0xFF }
spec fn u32len(nt: int) -> int { (nt + 3) / 4 }

// the k-th class slot of the sparse state at offset o (padding slots included)
spec fn slot(n: &NFA, o: int, k: int) -> u8 { byte_of(n.repr@[o + 2 + k / 4], k % 4) }

// number of u32s of the state at o up to (excluding) its match section
spec fn tsize(n: &NFA, o: int) -> int {
    let kind = kind_of(n, o);
    if kind == 0xFF { 2 + n.alphabet_len as int }
    else if kind == 0xFE { 3 }
    else { 2 + u32len(kind as int) + kind as int }
}

// the first slot k0 <= k < nt holding class c, or -1
spec fn first_slot(n: &NFA, o: int, c: u8, k0: int, nt: int) -> int
    decreases nt - k0
{
    if k0 >= nt { -1 } else if slot(n, o, k0) == c { k0 } else { first_slot(n, o, c, k0 + 1, nt) }
}

// the transition of the state at offset o on class c; 1 (FAIL) when undefined
spec fn c_lookup(n: &NFA, o: int, c: u8) -> u32 {
    let kind = kind_of(n, o);
    if kind == 0xFF { n.repr@[o + 2 + c as int] }
    else if kind == 0xFE { if byte_of(n.repr@[o], 1) == c { n.repr@[o + 2] } else { 1 } }
    else {
        let k = first_slot(n, o, c, 0, kind as int);
        if k < 0 { 1 } else { n.repr@[o + 2 + u32len(kind as int) + k] }
    }
}

// the set of state offsets and the potential (ghost; the bounded check decodes the states
// sequentially and uses breadth-first depth)
uninterp spec fn cstate(n: &NFA, s: StateID) -> bool;
uninterp spec fn rank(n: &NFA, s: StateID) -> nat;

spec fn is_match_state(n: &NFA, s: StateID) -> bool { cstate(n, s) && 0 < s.0 <= n.special.max_match_id.0 }

// the match list of a match state, as stored behind its transitions
spec fn mstart(n: &NFA, o: int) -> int { o + tsize(n, o) }
spec fn mlen(n: &NFA, o: int) -> int {
    let packed = n.repr@[mstart(n, o)];
    if packed & 0x8000_0000 == 0 { packed as int } else { 1 }
}
spec fn mpat(n: &NFA, o: int, i: int) -> u32 {
    let packed = n.repr@[mstart(n, o)];
    if packed & 0x8000_0000 == 0 { n.repr@[mstart(n, o) + 1 + i] } else { packed & 0x7FFF_FFFF }
}

spec fn cnfa_wf(n: &NFA) -> bool {
    &&& n.repr@.len() <= 0x7FFF_FFFF
    &&& 1 <= n.alphabet_len <= 256
    &&& forall|b: int| 0 <= b < 256 ==> ((#[trigger] n.byte_classes.0[b]) as int) < n.alphabet_len
    // every state lies inside repr; a sparse state repeats its last class in the padding slots
    &&& forall|s: StateID| #[trigger] cstate(n, s) ==> {
            &&& s.0 + tsize(n, s.0 as int) <= n.repr@.len()
            &&& (kind_of(n, s.0 as int) < 0xFE ==> forall|k: int| kind_of(n, s.0 as int) <= k < 4 * u32len(kind_of(n, s.0 as int) as int)
                    ==> #[trigger] slot(n, s.0 as int, k) == slot(n, s.0 as int, kind_of(n, s.0 as int) - 1))
            // the explicit transitions of one-transition and sparse states are never FAIL (the
            // search returns them without looking)
            &&& (kind_of(n, s.0 as int) == 0xFE ==> n.repr@[s.0 + 2] != 1)
            &&& (kind_of(n, s.0 as int) < 0xFE ==> forall|k: int| 0 <= k < kind_of(n, s.0 as int)
                    ==> #[trigger] n.repr@[s.0 + 2 + u32len(kind_of(n, s.0 as int) as int) + k] != 1)
        }
    // a defined transition leads to a state offset and raises the rank by at most one
    &&& forall|s: StateID, b: u8| cstate(n, s) && (#[trigger] c_lookup(n, s.0 as int, n.byte_classes.0[b as int])) != 1 ==> {
            &&& cstate(n, StateID(c_lookup(n, s.0 as int, n.byte_classes.0[b as int])))
            &&& rank(n, StateID(c_lookup(n, s.0 as int, n.byte_classes.0[b as int]))) <= rank(n, s) + 1
        }
    // a state with an undefined transition has a failure link to a state offset of smaller rank
    &&& forall|s: StateID, b: u8| cstate(n, s) && (#[trigger] c_lookup(n, s.0 as int, n.byte_classes.0[b as int])) == 1 ==> {
            &&& cstate(n, StateID(n.repr@[s.0 + 1]))
            &&& rank(n, StateID(n.repr@[s.0 + 1])) < rank(n, s)
        }
    // the dead state (offset 0) is absorbing
    &&& cstate(n, StateID(0))
    &&& forall|b: u8| (#[trigger] c_lookup(n, 0, n.byte_classes.0[b as int])) == 0
    &&& cstate(n, n.special.start_unanchored_id) && cstate(n, n.special.start_anchored_id)
    &&& n.special.start_unanchored_id.0 != 0 && n.special.start_anchored_id.0 != 0
    &&& n.special.max_match_id.0 <= n.special.max_special_id.0
    // match states: never the one-transition encoding; a non-empty list of valid ids inside repr
    &&& forall|s: StateID| #[trigger] is_match_state(n, s) ==> {
            &&& kind_of(n, s.0 as int) != 0xFE
            &&& mstart(n, s.0 as int) < n.repr@.len()
            &&& mlen(n, s.0 as int) >= 1
            &&& n.repr@[mstart(n, s.0 as int)] & 0x8000_0000 == 0 ==> mstart(n, s.0 as int) + 1 + mlen(n, s.0 as int) <= n.repr@.len()
            &&& forall|i: int| 0 <= i < mlen(n, s.0 as int) ==> (#[trigger] mpat(n, s.0 as int, i)) < n.pattern_lens@.len()
        }
}

// the transition function with failure links (what `next_state` computes)
spec fn cn_next(n: &NFA, anchored: Anchored, s: StateID, byte: u8) -> StateID
    decreases rank(n, s) when cnfa_wf(n) && cstate(n, s)
{
    let next = c_lookup(n, s.0 as int, n.byte_classes.0[byte as int]);
    if next != 1 { StateID(next) }
    else if anchored is Yes { StateID(0) }
    else { cn_next(n, anchored, StateID(n.repr@[s.0 + 1]), byte) }
}

proof fn lemma_first_slot(n: &NFA, o: int, c: u8, k0: int, nt: int, k: int)
    requires k0 <= k < nt, slot(n, o, k) == c, forall|j: int| k0 <= j < k ==> slot(n, o, j) != c,
    ensures first_slot(n, o, c, k0, nt) == k,
    decreases k - k0
{
    if k0 < k { lemma_first_slot(n, o, c, k0 + 1, nt, k); }
}

proof fn lemma_no_slot(n: &NFA, o: int, c: u8, k0: int, nt: int)
    requires k0 <= nt, forall|j: int| k0 <= j < nt ==> slot(n, o, j) != c,
    ensures first_slot(n, o, c, k0, nt) == -1,
    decreases nt - k0
{
    if k0 < nt { lemma_no_slot(n, o, c, k0 + 1, nt); }
}

//@@ fn src/nfa/contiguous.rs | fn u32_len(ntrans: usize) -> usize | res=r
//@@ header
    requires ntrans <= 0xFFFF,
    ensures r == u32len(ntrans as int)
//@@ before /if ntrans % 4 == 0/
    assert(ntrans >> 2 == ntrans / 4) by (bit_vector);
//@@ end

// the same layout read from a slice that starts at the state (what the `State::*` decoders get)
spec fn s_mstart(st: Seq<u32>, alen: int) -> int {
    let kind = st[0] & 0xFF;
    if kind == 0xFF { 2 + alen } else { 2 + u32len(kind as int) + kind as int }
}
spec fn s_mlen(st: Seq<u32>, alen: int) -> int {
    let packed = st[s_mstart(st, alen)];
    if packed & 0x8000_0000 == 0 { packed as int } else { 1 }
}
spec fn s_mpat(st: Seq<u32>, alen: int, i: int) -> u32 {
    let packed = st[s_mstart(st, alen)];
    if packed & 0x8000_0000 == 0 { st[s_mstart(st, alen) + 1 + i] } else { packed & 0x7FFF_FFFF }
}

impl State {
//@@ item src/nfa/contiguous.rs | const KIND: usize
//@@ end
//@@ item src/nfa/contiguous.rs | const KIND_DENSE: u32
//@@ end
//@@ item src/nfa/contiguous.rs | const KIND_ONE: u32
//@@ end

//@@ fn src/nfa/contiguous.rs | fn kind(state: &[u32]) -> u32 | res=r
//@@ header
        requires state@.len() >= 1,
        ensures r == state@[0] & 0xFF, r <= 0xFF,
//@@ before /state\[State::KIND\]/
        proof { let x = state@[0]; assert(x & 0xFF <= 0xFF) by (bit_vector); }
//@@ end

//@@ fn src/nfa/contiguous.rs | fn sparse_trans_len(state: &[u32]) -> usize | res=r
//@@ header
        requires state@.len() >= 1,
        ensures r == (state@[0] & 0xFF) as usize, r <= 0xFF,
//@@ before /\(state\[State::KIND\]/
        proof { let x = state@[0]; assert(x & 0xFF <= 0xFF) by (bit_vector); }
//@@ end

//@@ fn src/nfa/contiguous.rs | fn match_len(alphabet_len: usize, state: &[u32]) -> usize | res=r
//@@ header
        requires
            state@.len() >= 1, alphabet_len <= 256,
            s_mstart(state@, alphabet_len as int) < state@.len(),
        ensures r == s_mlen(state@, alphabet_len as int),
//@@ before /if packed & /
        proof {
            let x = state@[s_mstart(state@, alphabet_len as int)];
            assert(packed == x as usize);
            assert(((x as usize) & (1usize << 31) == 0) == (x & 0x8000_0000u32 == 0)) by (bit_vector);
        }
//@@ end

// R-assertEq: `assert_eq!(a, b);` -> `assert(a == b);` (the runtime assertion becomes a proof
// obligation: it can never fire)
//@@ fn src/nfa/contiguous.rs | fn match_pattern( | within=impl<'a> State<'a> | res=r
//@@ sub 1 /assert_eq!\(([^,]+), ([^)]+)\);/ => assert(\1 == \2);
//@@ header
        requires
            state@.len() >= 1, alphabet_len <= 256,
            s_mstart(state@, alphabet_len as int) < state@.len(),
            index < s_mlen(state@, alphabet_len as int),
            state@[s_mstart(state@, alphabet_len as int)] & 0x8000_0000 == 0
                ==> s_mstart(state@, alphabet_len as int) + 1 + s_mlen(state@, alphabet_len as int) <= state@.len(),
        ensures r.0 == s_mpat(state@, alphabet_len as int, index as int),
//@@ before /let pid = if packed/
        proof {
            assert((packed & (1u32 << 31) == 0) == (packed & 0x8000_0000u32 == 0)) by (bit_vector);
            assert(packed & !(1u32 << 31) == packed & 0x7FFF_FFFFu32) by (bit_vector);
        }
//@@ end
}

impl NFA {
// R-newUnchecked: `StateID::new_unchecked(k)` -> `StateID(k)` (body of the macro-generated const fn)
//@@ item src/nfa/contiguous.rs | const DEAD: StateID
//@@ sigsub 1 /StateID::new_unchecked\((\d+)\)/ => StateID(\1)
//@@ end
//@@ item src/nfa/contiguous.rs | const FAIL: StateID
//@@ sigsub 1 /StateID::new_unchecked\((\d+)\)/ => StateID(\1)
//@@ end

//@@ fn src/nfa/contiguous.rs | fn start_state(&self, anchored: Anchored) -> Result<StateID, MatchError> | within=unsafe impl Automaton for NFA | res=r
//@@ header
        requires cnfa_wf(self),
        ensures
            // C13: an NFA supports both anchor modes
            r is Ok, cstate(self, r->Ok_0), r->Ok_0.0 != 0,
            r->Ok_0 == (if anchored is Yes { self.special.start_anchored_id } else { self.special.start_unanchored_id }),
//@@ end

// R-fnAlias: the local alias `let u32tosid = StateID::from_u32_unchecked;` is inlined
// R-enumFor: `for (i, &x) in E.iter().enumerate() {` -> `let it__ = &E; for i in 0..it__.len() { let x = it__[i];`
// R-neBytes: `chunk.to_ne_bytes()` -> `u32_to_ne_bytes(chunk)`
//@@ fn src/nfa/contiguous.rs | fn next_state( | within=unsafe impl Automaton for NFA | res=r
//@@ sub 1 /let u32tosid = StateID::from_u32_unchecked;/ =>
//@@ sub 7 /\bu32tosid\(/ => StateID::from_u32_unchecked(
//@@ sub 1 /for \((\w+), &(\w+)\) in\s+([^{]+?)\.iter\(\)\.enumerate\(\)\s*\{/ => let it__ = &\3; for \1 in 0..it__.len() { let \2 = it__[\1];
//@@ sub 1 /(\w+)\.to_ne_bytes\(\)/ => u32_to_ne_bytes(\1)
//@@ sigsub 1 /mut sid: StateID/ => sid0: StateID
//@@ header
        requires cnfa_wf(self), cstate(self, sid0),
        ensures
            // C16: never indexes outside repr, never hands out FAIL, the result is a state offset
            cstate(self, r),
            r == cn_next(self, anchored, sid0, byte),
            // the dead state is absorbing
            sid0.0 == 0 ==> r.0 == 0,
//@@ before /loop \{/
        let mut sid = sid0;
        let ghost mut fails: nat = 0;
//@@ loop 1
            invariant
                cnfa_wf(self), cstate(self, sid),
                repr@ == self.repr@, class == self.byte_classes.0[byte as int],
                cn_next(self, anchored, sid, byte) == cn_next(self, anchored, sid0, byte),
                // [C19] the potential argument: every failure step is paid for by a rank decrease
                fails + rank(self, sid) <= rank(self, sid0),
                anchored is Yes ==> fails == 0,
                sid0.0 == 0 ==> sid.0 == 0,
            decreases rank(self, sid),
//@@ after /let kind = [^;]*;/
            proof {
                let x = repr@[o as int];
                assert(x & 0xFF <= 0xFF) by (bit_vector);
                assert(kind == kind_of(self, o as int));
            }
//@@ before 1/7 /return /
                    assert(fails + rank(self, next) <= rank(self, sid0) + 1); // [C19] failure steps are paid for by rank
//@@ before 2/7 /return /
                    assert(fails + rank(self, StateID(repr@[o + 2])) <= rank(self, sid0) + 1); // [C19] failure steps are paid for by rank
//@@ before /if class == /
                proof {
                    let x = repr@[o as int];
                    assert((((x as u16) >> 8) as u8) == byte_of(x, 1)) by (bit_vector);
                    assert(cstate(self, StateID(o as u32)));
                    assert(class == byte_of(x, 1) ==> c_lookup(self, o as int, class) == repr@[o + 2] && repr@[o + 2] != 1);
                    assert(class != byte_of(x, 1) ==> c_lookup(self, o as int, class) == 1);
                }
//@@ after /let trans_len = [^;]*;/
                proof {
                    assert(4 * u32len(trans_len as int) >= trans_len) by (nonlinear_arith) requires trans_len >= 0;
                }
//@@ loop 2
                    invariant
                        cnfa_wf(self), cstate(self, sid), o == sid.0, repr@ == self.repr@,
                        kind == kind_of(self, o as int), kind < 0xFE, trans_len == kind as int,
                        classes_len == u32len(trans_len as int), trans_offset == o + 2 + classes_len,
                        it__@ == repr@.subrange(o + 2, o + 2 + classes_len),
                        o + 2 + classes_len + trans_len <= repr@.len(),
                        class == self.byte_classes.0[byte as int],
                        cn_next(self, anchored, sid, byte) == cn_next(self, anchored, sid0, byte),
                        fails + rank(self, sid) <= rank(self, sid0),
                        anchored is Yes ==> fails == 0,
                        sid0.0 == 0 ==> sid.0 == 0,
                        // no class slot before this chunk holds the class
                        forall|k: int| 0 <= k < 4 * i ==> slot(self, o as int, k) != class,
//@@ after /let classes = u32_to_ne_bytes\(chunk\);/
                    proof {
                        assert(chunk == repr@[o + 2 + i]);
                        assert forall|j: int| 0 <= j < 4 implies #[trigger] slot(self, o as int, 4 * i + j) == classes@[j] by {
                            assert((4 * i + j) / 4 == i && (4 * i + j) % 4 == j) by (nonlinear_arith) requires 0 <= j < 4, i >= 0;
                        }
                        // a padding slot repeats the last real class, which sits at an earlier slot
                        assert(trans_len >= 1) by (nonlinear_arith) requires i < u32len(trans_len as int), i >= 0, trans_len >= 0;
                        assert(4 * i < 4 * classes_len) by (nonlinear_arith) requires i < classes_len;
                        assert(4 * classes_len <= trans_len + 3) by (nonlinear_arith) requires classes_len == (trans_len + 3) / 4;
                    }
//@@ before 3/7 /return /
                        proof { lemma_sparse_hit(self, o as int, class, trans_len as int, 4 * i); }
//@@ before 4/7 /return /
                        proof { lemma_sparse_hit(self, o as int, class, trans_len as int, 4 * i + 1); }
//@@ before 5/7 /return /
                        proof { lemma_sparse_hit(self, o as int, class, trans_len as int, 4 * i + 2); }
//@@ before 6/7 /return /
                        proof { lemma_sparse_hit(self, o as int, class, trans_len as int, 4 * i + 3); }
//@@ before /if anchored/
            proof {
                if kind != 0xFF && kind != 0xFE {
                    lemma_no_slot(self, o as int, class, 0, kind as int);
                }
                assert(c_lookup(self, o as int, class) == 1);
            }
//@@ before /sid = /
            proof { fails = fails + 1; }
//@@ end

//@@ fn src/nfa/contiguous.rs | fn match_len(&self, sid: StateID) -> usize | within=unsafe impl Automaton for NFA | res=r
//@@ header
        requires cnfa_wf(self), is_match_state(self, sid),
        ensures r >= 1, r == mlen(self, sid.0 as int),
//@@ before /State::match_len\(/
        proof { lemma_state_slice(self, sid); }
//@@ end

//@@ fn src/nfa/contiguous.rs | fn match_pattern(&self, sid: StateID, index: usize) -> PatternID | within=unsafe impl Automaton for NFA | res=r
//@@ header
        requires cnfa_wf(self), is_match_state(self, sid), index < mlen(self, sid.0 as int),
        ensures
            r.0 == mpat(self, sid.0 as int, index as int),
            // C16: listed pattern ids are valid
            r.0 < self.pattern_lens@.len(),
//@@ before /State::match_pattern\(/
        proof { lemma_state_slice(self, sid); }
//@@ end

//@@ fn src/nfa/contiguous.rs | fn is_special(&self, sid: StateID) -> bool | within=unsafe impl Automaton for NFA | res=r
//@@ header
        ensures r == (sid.0 <= self.special.max_special_id.0)
//@@ end

//@@ fn src/nfa/contiguous.rs | fn is_dead(&self, sid: StateID) -> bool | within=unsafe impl Automaton for NFA | res=r
//@@ header
        ensures r == (sid.0 == 0)
//@@ end

//@@ fn src/nfa/contiguous.rs | fn is_match(&self, sid: StateID) -> bool | within=unsafe impl Automaton for NFA | res=r
//@@ header
        ensures r == (sid.0 != 0 && sid.0 <= self.special.max_match_id.0),
                // C16: dead and match states are special
                cnfa_wf(self) && (r || sid.0 == 0) ==> sid.0 <= self.special.max_special_id.0,
//@@ end

//@@ fn src/nfa/contiguous.rs | fn is_start(&self, sid: StateID) -> bool | within=unsafe impl Automaton for NFA | res=r
//@@ header
        ensures r == (sid.0 == self.special.start_unanchored_id.0 || sid.0 == self.special.start_anchored_id.0)
//@@ end

//@@ fn src/nfa/contiguous.rs | fn match_kind(&self) -> MatchKind | within=unsafe impl Automaton for NFA | res=r
//@@ header
        ensures r == self.match_kind
//@@ end

//@@ fn src/nfa/contiguous.rs | fn patterns_len(&self) -> usize | within=unsafe impl Automaton for NFA | res=r
//@@ header
        ensures r == self.pattern_lens@.len()
//@@ end

// R-idx: `self.pattern_lens[pid]` -> `self.pattern_lens[pid.as_usize()]` (body of `Index<PatternID>`)
//@@ fn src/nfa/contiguous.rs | fn pattern_len(&self, pid: PatternID) -> usize | within=unsafe impl Automaton for NFA | res=r
//@@ sub 1 /self\.pattern_lens\[pid\]/ => self.pattern_lens[pid.as_usize()]
//@@ header
        requires pid.0 < self.pattern_lens@.len(),
        ensures r == self.pattern_lens@[pid.0 as int].0 as usize
//@@ end

//@@ fn src/nfa/contiguous.rs | fn min_pattern_len(&self) -> usize | within=unsafe impl Automaton for NFA | res=r
//@@ header
        ensures r == self.min_pattern_len
//@@ end

//@@ fn src/nfa/contiguous.rs | fn max_pattern_len(&self) -> usize | within=unsafe impl Automaton for NFA | res=r
//@@ header
        ensures r == self.max_pattern_len
//@@ end
}

// the slice `repr[sid..]` handed to the State decoders describes the same match section
proof fn lemma_state_slice(n: &NFA, sid: StateID)
    requires cnfa_wf(n), is_match_state(n, sid),
    ensures ({
        let st = n.repr@.subrange(sid.0 as int, n.repr@.len() as int);
        let alen = n.alphabet_len as int;
        &&& st.len() >= 1
        &&& s_mstart(st, alen) == tsize(n, sid.0 as int)
        &&& s_mstart(st, alen) < st.len()
        &&& s_mlen(st, alen) == mlen(n, sid.0 as int)
        &&& forall|i: int| 0 <= i < mlen(n, sid.0 as int) ==> #[trigger] s_mpat(st, alen, i) == mpat(n, sid.0 as int, i)
        &&& st[s_mstart(st, alen)] & 0x8000_0000 == 0 ==> s_mstart(st, alen) + 1 + s_mlen(st, alen) <= st.len()
    }),
{
    let o = sid.0 as int;
    let st = n.repr@.subrange(o, n.repr@.len() as int);
    assert(st[0] == n.repr@[o]);
    assert(kind_of(n, o) != 0xFE);
    assert(st[s_mstart(st, n.alphabet_len as int)] == n.repr@[mstart(n, o)]);
}

// a class found at slot k of a sparse state, with no earlier slot holding it, is a real
// transition (k < nt, because padding slots repeat the last real class) and is the lookup
proof fn lemma_sparse_hit(n: &NFA, o: int, c: u8, nt: int, k: int)
    requires
        cnfa_wf(n), cstate(n, StateID(o as u32)), 0 <= o <= 0x7FFF_FFFF,
        kind_of(n, o) < 0xFE, nt == kind_of(n, o) as int,
        0 <= k < 4 * u32len(nt), slot(n, o, k) == c,
        forall|j: int| 0 <= j < k ==> slot(n, o, j) != c,
    ensures
        k < nt,
        c_lookup(n, o, c) == n.repr@[o + 2 + u32len(nt) + k],
        c_lookup(n, o, c) != 1,
{
    if k >= nt {
        assert(nt >= 1) by (nonlinear_arith) requires 0 <= k < 4 * ((nt + 3) / 4), nt >= 0;
        assert(slot(n, o, k) == slot(n, o, nt - 1));
        assert(false);
    }
    lemma_first_slot(n, o, c, 0, nt, k);
}

} // verus!
fn main() {}
