// UNIT u5_rabinkarp — the Rabin-Karp engine of the packed searcher (src/packed/rabinkarp.rs):
// `hash`, `update_hash`, `verify`, `find_at`.  Properties: C06 (the engine returns the leftmost
// occurrence, by bucket priority, or None only if nothing occurs), C15 (all indexing in bounds,
// the run-time assertions never fire), C10 (nothing before `at` or after the haystack end).
// Proved here for all haystacks and all pattern sets: the rolling hash is the hash of the current
// window after every step (wrapping arithmetic = arithmetic modulo 2^64, lemma_roll), so a
// pattern occurring at a position always meets its bucket entry; `find_at` therefore misses
// nothing and reports the first position and, there, the first verifying entry of the bucket.
// The invariant `rk_wf` (hash_2pow = 2^(hash_len-1) mod 2^64, every pattern filed under the hash of
// its first hash_len bytes, bucket entries in priority order) is established by the real constructor
// `RabinKarp::new`, under contract here as well (postcondition rk_wf): the power loop computes
// 2^(hash_len-1) modulo 2^64, every pattern handed out by `Patterns::iter` (in priority order, by the
// contract of `PatternIter::next`) is pushed into the bucket of the hash of its first hash_len bytes.
// Hypothesis on the collection: `pats_ok` (the order is a permutation of the identifiers, every pattern
// is at least `minimum_len` long).  `Pattern::is_prefix` is by contract, discharged by
// Kani group pattern_raw (bounded).
// VERUS-RLIMIT 80
use vstd::prelude::*;
verus! {

global size_of usize == 8;

//@@ include types.inc

// abstract pattern collection (src/packed/pattern.rs): the bytes of pattern `id`
struct Pattern { id: PatternID, ghost bytes: Seq<u8> }
struct Patterns { x: u8 }
uninterp spec fn pat_bytes(ps: Patterns, id: PatternID) -> Seq<u8>;
uninterp spec fn pat_count(ps: Patterns) -> nat;
// position of a pattern in the priority order of the collection (`Patterns::iter` order)
uninterp spec fn prio(ps: Patterns, id: PatternID) -> int;

impl Patterns {
    #[verifier::external_body]
    fn get(&self, id: PatternID) -> (p: Pattern)
        requires id.0 < pat_count(*self)
        ensures p.bytes == pat_bytes(*self, id), p.id == id
    { unimplemented!() }
}
// the smallest pattern length (`Patterns::minimum_len`) and the priority order (`Patterns::order`)
uninterp spec fn pat_min(ps: Patterns) -> nat;
uninterp spec fn pat_ord(ps: Patterns) -> Seq<PatternID>;
spec fn pats_ok(ps: Patterns) -> bool {
    &&& pat_ord(ps).len() == pat_count(ps)
    &&& pat_min(ps) <= 0x7FFF_FFFF_FFFF_FFFF   // A-slice-len
    &&& forall|i: int| 0 <= i < pat_count(ps) ==> (#[trigger] pat_ord(ps)[i]).0 < pat_count(ps) && prio(ps, pat_ord(ps)[i]) == i
    &&& forall|id: PatternID| id.0 < pat_count(ps) ==> 0 <= #[trigger] prio(ps, id) < pat_count(ps) && pat_ord(ps)[prio(ps, id)] == id
    &&& forall|id: PatternID| id.0 < pat_count(ps) ==> (#[trigger] pat_bytes(ps, id)).len() >= pat_min(ps)
}
// `PatternIter` (src/packed/pattern.rs): position `i` in the order of the collection `ps`
struct PatternIter { ghost ps: Patterns, ghost i: nat }
impl Patterns {
    // len / minimum_len: the contracts unit u5_packed_builder proves of the real functions
    #[verifier::external_body]
    fn len(&self) -> (r: usize) ensures r == pat_count(*self) { unimplemented!() }
    #[verifier::external_body]
    fn minimum_len(&self) -> (r: usize) ensures r == pat_min(*self) { unimplemented!() }
    // R-arc: `Arc::clone(patterns)` is the same collection
    #[verifier::external_body]
    fn arc_clone(&self) -> (r: Patterns) ensures r == *self { unimplemented!() }
    #[verifier::external_body]
    fn iter(&self) -> (it: PatternIter) ensures it.ps == *self, it.i == 0 { unimplemented!() }
}
impl PatternIter {
    // contract of `PatternIter::next` (proved of the real function in unit u5_packed_builder with
    // pat_ord = order@, pat_bytes = pv, pat_count = pv.len()): the patterns in `order`, each with its identifier
    #[verifier::external_body]
    fn next(&mut self) -> (r: Option<(PatternID, Pattern)>)
        ensures final(self).ps == old(self).ps,
            old(self).i < pat_count(old(self).ps) ==> r is Some && r->Some_0.0 == pat_ord(old(self).ps)[old(self).i as int]
                && r->Some_0.1.id == r->Some_0.0 && r->Some_0.1.bytes == pat_bytes(old(self).ps, r->Some_0.0) && final(self).i == old(self).i + 1,
            old(self).i >= pat_count(old(self).ps) ==> r is None && final(self).i == old(self).i,
    { unimplemented!() }
}
impl Pattern {
    #[verifier::external_body]
    fn bytes(&self) -> (r: &[u8]) ensures r@ == self.bytes { unimplemented!() }
    // contract = what Kani group pattern_raw proves of the real (raw-pointer) is_prefix
    #[verifier::external_body]
    fn is_prefix(&self, bytes: &[u8]) -> (r: bool)
        ensures r == (self.bytes.len() <= bytes@.len() && bytes@.subrange(0, self.bytes.len() as int) == self.bytes)
    { unimplemented!() }
    #[verifier::external_body]
    fn len(&self) -> (r: usize) ensures r == self.bytes.len()
    { unimplemented!() }
}

//@@ item src/packed/rabinkarp.rs | type Hash
//@@ end
//@@ item src/packed/rabinkarp.rs | const NUM_BUCKETS: usize
//@@ end

// R-arc: `Arc<Patterns>` -> `Patterns` (method calls go through `Deref`)
//@@ item src/packed/rabinkarp.rs | pub(crate) struct RabinKarp
//@@ sigsub 1 /pub\(crate\) struct/ => struct
//@@ sub 1 /Arc<Patterns>/ => Patterns
//@@ end

// ---- the hash, as mathematics -------------------------------------------------------------
spec const MODULUS: int = 0x1_0000_0000_0000_0000;

// "shift left by one, add the byte", modulo 2^64
spec fn hs(s: Seq<u8>) -> int
    decreases s.len()
{
    if s.len() == 0 { 0 } else { (2 * hs(s.drop_last()) + s.last() as int) % MODULUS }
}

// the same polynomial over the integers
spec fn poly(s: Seq<u8>) -> int
    decreases s.len()
{
    if s.len() == 0 { 0 } else { 2 * poly(s.drop_last()) + s.last() as int }
}

spec fn p2(n: nat) -> int { vstd::arithmetic::power2::pow2(n) as int }

proof fn lemma_hs_is_poly_mod(s: Seq<u8>)
    ensures hs(s) == poly(s) % MODULUS, 0 <= hs(s) < MODULUS,
    decreases s.len()
{
    //@@ canary lemma_hs_is_poly_mod
    if s.len() > 0 {
        let d = s.drop_last();
        lemma_hs_is_poly_mod(d);
        let l = s.last() as int;
        // (2 * (poly(d) % M) + l) % M == (2 * poly(d) + l) % M
        vstd::arithmetic::div_mod::lemma_mul_mod_noop_right(2, poly(d), MODULUS);
        vstd::arithmetic::div_mod::lemma_add_mod_noop(2 * (poly(d) % MODULUS), l, MODULUS);
        vstd::arithmetic::div_mod::lemma_add_mod_noop(2 * poly(d), l, MODULUS);
    }
}

// poly([a] + t) = a * 2^|t| + poly(t)
proof fn lemma_poly_front(a: u8, t: Seq<u8>)
    ensures poly(seq![a] + t) == a as int * p2(t.len()) + poly(t),
    decreases t.len()
{
    //@@ canary lemma_poly_front
    let s = seq![a] + t;
    reveal_with_fuel(poly, 2);
    if t.len() == 0 {
        assert(s.drop_last() =~= Seq::<u8>::empty());
        assert(s.last() == a);
        assert(poly(s.drop_last()) == 0);
        assert(poly(t) == 0);
        vstd::arithmetic::power2::lemma2_to64();
        assert(p2(0) == 1);
        assert(poly(s) == a as int);
        assert(a as int * p2(t.len()) == a as int) by (nonlinear_arith) requires p2(t.len()) == 1;
    } else {
        assert(s.drop_last() =~= seq![a] + t.drop_last());
        assert(s.last() == t.last());
        lemma_poly_front(a, t.drop_last());
        vstd::arithmetic::power2::lemma_pow2_unfold(t.len());
        let k = p2((t.len() - 1) as nat);
        assert(p2(t.len()) == 2 * k);
        assert(2 * (a as int * k) == a as int * (2 * k)) by (nonlinear_arith);
    }
}

// L-roll: dropping the first byte of a window and appending x
proof fn lemma_roll(w: Seq<u8>, x: u8)
    requires w.len() >= 1,
    ensures poly(w.drop_first().push(x)) == 2 * (poly(w) - w[0] as int * p2((w.len() - 1) as nat)) + x as int,
{
    //@@ canary lemma_roll
    let t = w.drop_first();
    assert(w =~= seq![w[0]] + t);
    lemma_poly_front(w[0], t);
    let n = t.push(x);
    assert(n.drop_last() =~= t);
    assert(n.last() == x);
}

spec fn occurs(ps: Patterns, id: PatternID, hay: Seq<u8>, at: int) -> bool {
    &&& 0 <= at
    &&& at + pat_bytes(ps, id).len() <= hay.len()
    &&& hay.subrange(at, at + pat_bytes(ps, id).len()) == pat_bytes(ps, id)
}

spec fn window(hay: Seq<u8>, at: int, n: int) -> Seq<u8> { hay.subrange(at, at + n) }

spec fn rk_wf(rk: &RabinKarp) -> bool {
    &&& rk.buckets@.len() == 64
    &&& 1 <= rk.hash_len <= 0x7FFF_FFFF_FFFF_FFFF
    &&& rk.hash_2pow as int == p2((rk.hash_len - 1) as nat) % MODULUS
    // every pattern is at least hash_len long and filed under the hash of its first hash_len bytes
    &&& forall|id: PatternID| id.0 < pat_count(rk.patterns) ==> {
            &&& (#[trigger] pat_bytes(rk.patterns, id)).len() >= rk.hash_len
            &&& exists|j: int| 0 <= j < rk.buckets@[hs(pat_bytes(rk.patterns, id).subrange(0, rk.hash_len as int)) % 64]@.len()
                    && #[trigger] rk.buckets@[hs(pat_bytes(rk.patterns, id).subrange(0, rk.hash_len as int)) % 64]@[j]
                        == (hs(pat_bytes(rk.patterns, id).subrange(0, rk.hash_len as int)) as usize, id)
        }
    // bucket entries name patterns of the collection, in priority order
    &&& forall|b: int, j: int| 0 <= b < 64 && 0 <= j < rk.buckets@[b]@.len() ==> (#[trigger] rk.buckets@[b]@[j]).1.0 < pat_count(rk.patterns)
    &&& forall|b: int, i: int, j: int| 0 <= b < 64 && 0 <= i < j < rk.buckets@[b]@.len()
            ==> prio(rk.patterns, (#[trigger] rk.buckets@[b]@[i]).1) < prio(rk.patterns, (#[trigger] rk.buckets@[b]@[j]).1)
}

// a pattern occurring at `at` starts with the window, so it hashes like the window
proof fn lemma_occurs_hash(rk: &RabinKarp, id: PatternID, hay: Seq<u8>, at: int)
    requires rk_wf(rk), id.0 < pat_count(rk.patterns), occurs(rk.patterns, id, hay, at),
    ensures
        at + rk.hash_len <= hay.len(),
        pat_bytes(rk.patterns, id).subrange(0, rk.hash_len as int) == window(hay, at, rk.hash_len as int),
{
    //@@ canary lemma_occurs_hash
    let p = pat_bytes(rk.patterns, id);
    assert(p.subrange(0, rk.hash_len as int) =~= window(hay, at, rk.hash_len as int)) by {
        assert forall|i: int| 0 <= i < rk.hash_len implies p.subrange(0, rk.hash_len as int)[i] == window(hay, at, rk.hash_len as int)[i] by {
            assert(hay.subrange(at, at + p.len())[i] == p[i]);
        }
    }
}

proof fn lemma_shl1(a: usize)
    ensures (a << 1usize) as int == (2 * a) % MODULUS
{
    assert((a << 1usize) == ((2 * a) % 0x1_0000_0000_0000_0000) as usize) by (bit_vector);
}

// pattern `id` is filed under the hash of its first hash_len bytes (the second clause of rk_wf)
spec fn filed(rk: &RabinKarp, id: PatternID) -> bool {
    &&& pat_bytes(rk.patterns, id).len() >= rk.hash_len
    &&& exists|j: int| 0 <= j < rk.buckets@[hs(pat_bytes(rk.patterns, id).subrange(0, rk.hash_len as int)) % 64]@.len()
            && #[trigger] rk.buckets@[hs(pat_bytes(rk.patterns, id).subrange(0, rk.hash_len as int)) % 64]@[j]
                == (hs(pat_bytes(rk.patterns, id).subrange(0, rk.hash_len as int)) as usize, id)
}

proof fn lemma_p2_step(h: usize, i: nat)
    requires h as int == p2(i) % MODULUS
    ensures (h.wrapping_shl(1)) as int == p2(i + 1) % MODULUS
{
    //@@ canary lemma_p2_step
    lemma_shl1(h);
    vstd::arithmetic::power2::lemma_pow2_unfold(i + 1);
    vstd::arithmetic::div_mod::lemma_mul_mod_noop_right(2, p2(i), MODULUS);
}

impl RabinKarp {

// R-assert: `assert!(E);` -> `{ let a__ = E; assert(a__); }` (the runtime assertion becomes a proof
// obligation: the documented panics "collection empty / a pattern empty" are the preconditions);
// R-wildFor: `for _ in 1..hash_len {` -> `for i__ in it: 1..hash_len {`; R-arc: `Arc::clone(patterns)` ->
// `patterns.arc_clone()`; R-forIter (Rust's own desugaring of `for`): `for (id, pat) in patterns.iter() {`
// -> `let mut it__ = patterns.iter(); loop { let (id, pat) = match it__.next() { Some(x) => x, None => break };`
//@@ fn src/packed/rabinkarp.rs | pub(crate) fn new(patterns: &Arc<Patterns>) -> RabinKarp | res=rk
//@@ sigsub 1 /pub\(crate\) fn/ => fn
//@@ sigsub 1 /&Arc<Patterns>/ => &Patterns
//@@ sub 2 /assert!\(([^;]+)\);/ => { let a__ = \1; assert(a__); }
//@@ sub 1 /for _ in ([\w.]+)\.\.(=?[\w.]+) \{/ => for i__ in it: \1..\2 {
//@@ sub 1 /Arc::clone\(patterns\)/ => patterns.arc_clone()
//@@ sub 1 /for \(id, pat\) in patterns\.iter\(\) \{/ => let mut it__ = patterns.iter(); loop { let (id, pat) = match it__.next() { Some(x) => x, None => break };
//@@ header
        requires pats_ok(*patterns), pat_count(*patterns) >= 1, pat_min(*patterns) >= 1,
        ensures rk_wf(&rk), rk.patterns == *patterns, rk.hash_len == pat_min(*patterns),
//@@ before /for i__ in/
        proof { vstd::arithmetic::power2::lemma2_to64(); }
//@@ loop 1
            invariant hash_2pow as int == p2((i__ - 1) as nat) % MODULUS, 1 <= i__,
//@@ before /hash_2pow = hash_2pow\./
            proof { lemma_p2_step(hash_2pow, (i__ - 1) as nat); }
//@@ loop 2
            invariant
                pats_ok(*patterns), it__.ps == *patterns, it__.i <= pat_count(*patterns),
                rk.patterns == *patterns, rk.hash_len == hash_len, rk.hash_2pow == hash_2pow,
                hash_len == pat_min(*patterns), hash_len >= 1,
                hash_2pow as int == p2((hash_len - 1) as nat) % MODULUS,
                rk.buckets@.len() == 64,
                forall|k: int| 0 <= k < it__.i ==> filed(&rk, #[trigger] pat_ord(*patterns)[k]),
                forall|b: int, j: int| 0 <= b < 64 && 0 <= j < rk.buckets@[b]@.len() ==> {
                    &&& (#[trigger] rk.buckets@[b]@[j]).1.0 < pat_count(*patterns)
                    &&& prio(*patterns, rk.buckets@[b]@[j].1) < it__.i },
                forall|b: int, i: int, j: int| 0 <= b < 64 && 0 <= i < j < rk.buckets@[b]@.len()
                    ==> prio(rk.patterns, (#[trigger] rk.buckets@[b]@[i]).1) < prio(rk.patterns, (#[trigger] rk.buckets@[b]@[j]).1),
            ensures it__.i >= pat_count(*patterns),
            decreases pat_count(*patterns) - it__.i,
//@@ before /rk\.buckets\[\w+\]\.\w+\(/
            let ghost old_rk = rk;
//@@ after /rk\.buckets\[\w+\]\.\w+\([^;]*;/
            proof {
                let k0 = (it__.i - 1) as int;
                assert(id == pat_ord(*patterns)[k0]);
                assert(rk.buckets@[bucket as int]@[old_rk.buckets@[bucket as int]@.len() as int] == (hash, id));
                assert forall|k: int| 0 <= k < it__.i implies filed(&rk, #[trigger] pat_ord(*patterns)[k]) by {
                    if k < k0 {
                        assert(filed(&old_rk, pat_ord(*patterns)[k]));
                        let idk = pat_ord(*patterns)[k];
                        let hh = hs(pat_bytes(rk.patterns, idk).subrange(0, rk.hash_len as int));
                        let j = choose|j: int| 0 <= j < old_rk.buckets@[hh % 64]@.len() && #[trigger] old_rk.buckets@[hh % 64]@[j] == (hh as usize, idk);
                        assert(rk.buckets@[hh % 64]@[j] == (hh as usize, idk));
                    }
                }
            }
//@@ before /rk\s*\}\s*$/
        proof {
            assert forall|id: PatternID| id.0 < pat_count(rk.patterns) implies filed(&rk, id) by {
                assert(pat_ord(*patterns)[prio(*patterns, id)] == id);
            }
            assert forall|id: PatternID| id.0 < pat_count(rk.patterns) implies {
                &&& (#[trigger] pat_bytes(rk.patterns, id)).len() >= rk.hash_len
                &&& exists|j: int| 0 <= j < rk.buckets@[hs(pat_bytes(rk.patterns, id).subrange(0, rk.hash_len as int)) % 64]@.len()
                    && #[trigger] rk.buckets@[hs(pat_bytes(rk.patterns, id).subrange(0, rk.hash_len as int)) % 64]@[j]
                        == (hs(pat_bytes(rk.patterns, id).subrange(0, rk.hash_len as int)) as usize, id)
            } by { assert(filed(&rk, id)); }
        }
//@@ end

// R-assertEq: `assert_eq!(a, b);` -> `assert(a == b);`; R-refFor: `for &b in bytes {` ->
// `for b__ref in it: bytes.iter() { let b = *b__ref;`
//@@ fn src/packed/rabinkarp.rs | fn hash(&self, bytes: &[u8]) -> Hash | res=r
//@@ sub 1 /assert_eq!\(([^,]+), ([^)]+\))\);/ => assert(\1 == \2);
//@@ sub 1 /for &b in bytes \{/ => for b__ref in it: bytes.iter() { let b = *b__ref;
//@@ header
        requires bytes@.len() == self.hash_len,
        ensures r as int == hs(bytes@),
//@@ loop 1
            invariant
                hash as int == hs(bytes@.subrange(0, it.index@ as int)),
                it.index@ <= bytes@.len(),
//@@ after /let b = \*b__ref;/
            proof {
                let i = it.index@ as int;
                let pre = bytes@.subrange(0, i);
                let cur = bytes@.subrange(0, i + 1);
                assert(cur.drop_last() =~= pre);
                assert(cur.last() == b);
                lemma_hs_is_poly_mod(pre);
                lemma_shl1(hash);
                // ((2*hash) % M + b) % M == (2*hash + b) % M
                vstd::arithmetic::div_mod::lemma_add_mod_noop(2 * hash as int, b as int, MODULUS);
                vstd::arithmetic::div_mod::lemma_small_mod(b as nat, MODULUS as nat);
            }
//@@ before /hash\s*\}\s*$/
        proof { assert(bytes@.subrange(0, bytes@.len() as int) =~= bytes@); }
//@@ end

//@@ fn src/packed/rabinkarp.rs | fn update_hash(&self, prev: Hash, old_byte: u8, new_byte: u8) -> Hash | res=r
//@@ header
        ensures
            // the ring expression, modulo 2^64
            r as int == (2 * (prev as int - old_byte as int * self.hash_2pow as int) + new_byte as int) % MODULUS,
//@@ after /\A\{/
        proof {
            let m = MODULUS;
            let c = old_byte as int; let h = self.hash_2pow as int; let p = prev as int; let x = new_byte as int;
            let t1 = (c * h) % m;                       // wrapping_mul
            let t2 = (p - t1) % m;                      // wrapping_sub
            let t3 = (2 * t2) % m;                      // wrapping_shl(1)
            lemma_shl1(t2 as usize);
            // (p - (c*h)%m) % m == (p - c*h) % m
            vstd::arithmetic::div_mod::lemma_sub_mod_noop_right(p, c * h, m);
            // (2 * ((p - c*h) % m)) % m == (2 * (p - c*h)) % m
            vstd::arithmetic::div_mod::lemma_mul_mod_noop_right(2, p - c * h, m);
            // (t3 + x) % m == (2*(p - c*h) + x) % m
            vstd::arithmetic::div_mod::lemma_add_mod_noop(2 * (p - c * h), x, m);
            vstd::arithmetic::div_mod::lemma_small_mod(x as nat, m as nat);
            vstd::arithmetic::div_mod::lemma_add_mod_noop(t3, x, m);
            vstd::arithmetic::div_mod::lemma_mod_twice(2 * (p - c * h), m);
        }
//@@ end

//@@ fn src/packed/rabinkarp.rs | fn verify( | res=r
//@@ header
        requires rk_wf(self), id.0 < pat_count(self.patterns), at <= haystack@.len(), haystack@.len() <= 0x7FFF_FFFF_FFFF_FFFF,
        ensures
            (r is Some) == occurs(self.patterns, id, haystack@, at as int),
            r is Some ==> r->Some_0 == (Match { pattern: id, span: Span { start: at, end: (at + pat_bytes(self.patterns, id).len()) as usize } }),
//@@ after /let pat = [^;]*;/
        proof {
            let p = pat_bytes(self.patterns, id);
            let tail = haystack@.subrange(at as int, haystack@.len() as int);
            if p.len() <= tail.len() {
                assert(tail.subrange(0, p.len() as int) =~= haystack@.subrange(at as int, at + p.len()));
            }
        }
//@@ end

// R-intoIter: `for &(phash, pid) in bucket {` -> `for e__ in it: bucket.iter() { let (phash, pid) = *e__;`
//@@ fn src/packed/rabinkarp.rs | pub(crate) fn find_at( | res=r
//@@ sigsub 1 /pub\(crate\) fn/ => fn
//@@ sigsub 1 /mut at: usize/ => at0: usize
//@@ sub 1 /assert_eq!\(([^,]+), ([^)]+\))\);/ => assert(\1 == \2);
//@@ sub 1 /for &\((\w+), (\w+)\) in (\w+) \{/ => for e__ in it: \3.iter() { let (\1, \2) = *e__;
//@@ header
        requires rk_wf(self), at0 <= haystack@.len(), haystack@.len() <= 0x7FFF_FFFF_FFFF_FFFF,
        ensures
            // C06 completeness: None only if no pattern occurs at any position >= at0
            r is None ==> forall|id: PatternID, k: int| id.0 < pat_count(self.patterns) && at0 <= k
                    ==> !#[trigger] occurs(self.patterns, id, haystack@, k),
            // C06 soundness and leftmost-ness: the reported pattern occurs there, nothing occurs
            // at an earlier position >= at0, and no pattern of higher priority occurs there
            r is Some ==> {
                let m = r->Some_0;
                &&& m.pattern.0 < pat_count(self.patterns)
                &&& at0 <= m.span.start
                &&& occurs(self.patterns, m.pattern, haystack@, m.span.start as int)
                &&& m.span.end == m.span.start + pat_bytes(self.patterns, m.pattern).len()
                &&& m.span.end <= haystack@.len()
                &&& forall|id: PatternID, k: int| id.0 < pat_count(self.patterns) && at0 <= k < m.span.start
                        ==> !#[trigger] occurs(self.patterns, id, haystack@, k)
                &&& forall|id: PatternID| id.0 < pat_count(self.patterns) && #[trigger] occurs(self.patterns, id, haystack@, m.span.start as int)
                        ==> prio(self.patterns, m.pattern) <= prio(self.patterns, id)
            },
//@@ before /assert\(/
        let mut at = at0;
//@@ before 1/2 /return None;/
            proof {
                assert forall|id: PatternID, k: int| id.0 < pat_count(self.patterns) && at0 <= k
                        implies !#[trigger] occurs(self.patterns, id, haystack@, k) by {
                    if occurs(self.patterns, id, haystack@, k) { lemma_occurs_hash(self, id, haystack@, k); }
                }
            }
//@@ loop 1
            invariant
                rk_wf(self), haystack@.len() <= 0x7FFF_FFFF_FFFF_FFFF,
                at0 <= at, at + self.hash_len <= haystack@.len(),
                hash as int == hs(window(haystack@, at as int, self.hash_len as int)),
                forall|id: PatternID, k: int| id.0 < pat_count(self.patterns) && at0 <= k < at
                    ==> !#[trigger] occurs(self.patterns, id, haystack@, k),
            decreases haystack@.len() - at,
//@@ after /let bucket = [^;]*;/
            proof {
                lemma_hs_is_poly_mod(window(haystack@, at as int, self.hash_len as int));
                assert(bucket@ == self.buckets@[(hash % 64) as int]@);
            }
//@@ loop 2
                invariant
                    rk_wf(self), haystack@.len() <= 0x7FFF_FFFF_FFFF_FFFF,
                    at0 <= at, at + self.hash_len <= haystack@.len(),
                    bucket@ == self.buckets@[(hash % 64) as int]@,
                    hash as int == hs(window(haystack@, at as int, self.hash_len as int)),
                    forall|id: PatternID, k: int| id.0 < pat_count(self.patterns) && at0 <= k < at
                        ==> !#[trigger] occurs(self.patterns, id, haystack@, k),
                    // no earlier entry of the bucket has this hash and occurs here
                    forall|j: int| 0 <= j < it.index@ ==> !((#[trigger] bucket@[j]).0 == hash && occurs(self.patterns, bucket@[j].1, haystack@, at as int)),
//@@ before /return Some\(c\);/
                        proof {
                            let k = it.index@ as int;
                            assert(bucket@[k] == (phash, pid));
                            assert forall|id: PatternID| id.0 < pat_count(self.patterns) && #[trigger] occurs(self.patterns, id, haystack@, at as int)
                                    implies prio(self.patterns, pid) <= prio(self.patterns, id) by {
                                lemma_occurs_hash(self, id, haystack@, at as int);
                                let hh = hs(pat_bytes(self.patterns, id).subrange(0, self.hash_len as int));
                                let j = choose|j: int| 0 <= j < self.buckets@[hh % 64]@.len() && #[trigger] self.buckets@[hh % 64]@[j] == (hh as usize, id);
                                assert(hh == hash as int);
                                assert(bucket@[j] == (hash, id));
                                if j < k { assert(false); }
                            }
                        }
//@@ before 2/2 /if at \+ self\.hash_len/
            proof {
                // the bucket scan is over: nothing occurs at `at`
                assert forall|id: PatternID| id.0 < pat_count(self.patterns) implies !#[trigger] occurs(self.patterns, id, haystack@, at as int) by {
                    if occurs(self.patterns, id, haystack@, at as int) {
                        lemma_occurs_hash(self, id, haystack@, at as int);
                        let hh = hs(pat_bytes(self.patterns, id).subrange(0, self.hash_len as int));
                        let j = choose|j: int| 0 <= j < self.buckets@[hh % 64]@.len() && #[trigger] self.buckets@[hh % 64]@[j] == (hh as usize, id);
                        assert(hh == hash as int);
                        assert(bucket@[j] == (hash, id));
                        assert(false);
                    }
                }
            }
//@@ before 2/2 /return None;/
                proof {
                    assert forall|id: PatternID, k: int| id.0 < pat_count(self.patterns) && at0 <= k
                            implies !#[trigger] occurs(self.patterns, id, haystack@, k) by {
                        if occurs(self.patterns, id, haystack@, k) { lemma_occurs_hash(self, id, haystack@, k); }
                    }
                }
//@@ before /at \+= 1;/
            proof {
                // L-roll: the updated hash is the hash of the next window
                let n = self.hash_len as int;
                let w = window(haystack@, at as int, n);
                let w2 = window(haystack@, at + 1, n);
                assert(w2 =~= w.drop_first().push(haystack@[at + n]));
                assert(w[0] == haystack@[at as int]);
                lemma_roll(w, haystack@[at + n]);
                lemma_hs_is_poly_mod(w);
                lemma_hs_is_poly_mod(w2);
                let m = MODULUS;
                let c = w[0] as int; let kk = p2((n - 1) as nat); let x = haystack@[at + n] as int;
                // 2*((poly(w)%m) - c*(kk%m)) + x  ==  2*(poly(w) - c*kk) + x   (mod m)
                vstd::arithmetic::div_mod::lemma_mul_mod_noop_right(c, kk, m);
                vstd::arithmetic::div_mod::lemma_sub_mod_noop(poly(w), c * kk, m);
                vstd::arithmetic::div_mod::lemma_sub_mod_noop(poly(w) % m, c * (kk % m), m);
                vstd::arithmetic::div_mod::lemma_mod_twice(poly(w), m);
                vstd::arithmetic::div_mod::lemma_mul_mod_noop_right(2, poly(w) - c * kk, m);
                vstd::arithmetic::div_mod::lemma_mul_mod_noop_right(2, (poly(w) % m) - c * (kk % m), m);
                vstd::arithmetic::div_mod::lemma_add_mod_noop(2 * (poly(w) - c * kk), x, m);
                vstd::arithmetic::div_mod::lemma_add_mod_noop(2 * ((poly(w) % m) - c * (kk % m)), x, m);
            }
//@@ end
}

} // verus!
fn main() {}
