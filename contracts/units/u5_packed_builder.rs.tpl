// UNIT u5_packed_builder — the pattern collection of the packed searchers and the builder's
// give-up latch: packed::pattern::Patterns::{new, add, reset, len, is_empty, minimum_len} and
// packed::api::Builder::add.  Properties: C06 / C05 / C20 (the identifiers a packed searcher reports
// are the positions at which its patterns were added: the k-th accepted pattern gets identifier k;
// once a pattern is refused — too many, or empty — the builder stays inert for good and holds no
// patterns, so a later `build` yields nothing instead of a searcher for a renumbered remainder).
use vstd::prelude::*;
verus! {

global size_of usize == 8;

//@@ include types.inc

// R-rename: `packed::api::MatchKind` clashes with `util::search::MatchKind` of the prelude
#[derive(Clone, Copy, PartialEq, Eq, Debug)]
//@@ item src/packed/api.rs | pub enum MatchKind
//@@ sigsub 1 /pub enum MatchKind/ => enum PMatchKind
//@@ end

impl PMatchKind {
//@@ fn src/packed/api.rs | fn default() -> MatchKind | within=impl Default for MatchKind | res=r
//@@ sigsub 1 /-> MatchKind/ => -> PMatchKind
//@@ sub 1 /MatchKind::LeftmostFirst/ => PMatchKind::LeftmostFirst
//@@ header
        ensures r is LeftmostFirst
//@@ end
}

// A-ids: `PatternID::new(n).unwrap()` (limit checked by Kani group primitives_leaf)
#[verifier::external_body]
fn pattern_id_new_unwrap(n: usize) -> (r: PatternID)
    requires n <= 0x7FFF_FFFE,
    ensures r.0 as usize == n,
{ unimplemented!() }

#[verifier::external_body]
fn core_cmp_min(a: usize, b: usize) -> (r: usize) ensures r == (if a <= b { a } else { b }) { unimplemented!() }

//@@ item src/packed/pattern.rs | pub(crate) struct Patterns
//@@ sigsub 1 /pub\(crate\) struct/ => struct
//@@ sub 1 /kind: MatchKind,/ => kind: PMatchKind,
//@@ end

// the patterns in identifier order
spec fn pv(p: &Patterns) -> Seq<Seq<u8>> { Seq::new(p.by_id@.len(), |i: int| p.by_id@[i]@) }

spec fn min_len_of(s: Seq<Seq<u8>>) -> int
    decreases s.len()
{
    if s.len() == 0 { usize::MAX as int }
    else { let m = min_len_of(s.drop_last()); if s.last().len() < m { s.last().len() as int } else { m } }
}

// representation invariant: `order` holds every identifier once (here: before set_match_kind
// sorts it, in insertion order), the recorded minimum is the minimum
spec fn pats_wf(p: &Patterns) -> bool {
    &&& p.order@.len() == p.by_id@.len()
    &&& forall|i: int| 0 <= i < p.order@.len() ==> (#[trigger] p.order@[i]).0 == i
    &&& p.minimum_len == min_len_of(pv(p))
    &&& forall|i: int| 0 <= i < p.by_id@.len() ==> (#[trigger] p.by_id@[i])@.len() >= 1
}

impl Patterns {
//@@ fn src/packed/pattern.rs | pub(crate) fn new() -> Patterns | res=r
//@@ sigsub 1 /pub\(crate\) fn/ => fn
//@@ sub 1 /MatchKind::default\(\)/ => PMatchKind::default()
//@@ header
        ensures pats_wf(&r), pv(&r).len() == 0, r.kind is LeftmostFirst,
//@@ end

//@@ fn src/packed/pattern.rs | pub(crate) fn add(&mut self, bytes: &[u8]) | within=impl Patterns
//@@ sigsub 1 /pub\(crate\) fn/ => fn
//@@ sub 1 /PatternID::new\(self\.by_id\.len\(\)\)\.unwrap\(\)/ => pattern_id_new_unwrap(self.by_id.len())
//@@ sub 1 /cmp::min\(/ => core_cmp_min(
//@@ sub 1 /bytes\.to_vec\(\)/ => vstd::slice::slice_to_vec(bytes)
//@@ header
        requires
            pats_wf(old(self)),
            // the two `assert!`s of the body, and the byte counter does not wrap
            bytes@.len() >= 1, old(self).by_id@.len() <= 0xFFFF,
            old(self).total_pattern_bytes + bytes@.len() <= usize::MAX,
        ensures
            pats_wf(final(self)),
            // the new pattern gets the next identifier; nothing else moves
            pv(final(self)) == pv(old(self)).push(bytes@),
            final(self).kind == old(self).kind,
            final(self).total_pattern_bytes == old(self).total_pattern_bytes + bytes@.len(),
//@@ before /\}\s*\Z/
        proof {
            let a = pv(old(self));
            let b = pv(self);
            assert(b =~= a.push(bytes@));
            assert(b.drop_last() =~= a);
        }
//@@ end

//@@ fn src/packed/pattern.rs | pub(crate) fn reset(&mut self) | within=impl Patterns
//@@ sigsub 1 /pub\(crate\) fn/ => fn
//@@ sub 1 /MatchKind::default\(\)/ => PMatchKind::default()
//@@ header
        ensures pats_wf(final(self)), pv(final(self)).len() == 0,
                final(self).total_pattern_bytes == old(self).total_pattern_bytes,
//@@ end

//@@ fn src/packed/pattern.rs | pub(crate) fn len(&self) -> usize | within=impl Patterns | res=r
//@@ sigsub 1 /pub\(crate\) fn/ => fn
//@@ header
        ensures r == pv(self).len()
//@@ end

//@@ fn src/packed/pattern.rs | pub(crate) fn is_empty(&self) -> bool | within=impl Patterns | res=r
//@@ sigsub 1 /pub\(crate\) fn/ => fn
//@@ header
        ensures r == (pv(self).len() == 0)
//@@ end

//@@ fn src/packed/pattern.rs | pub(crate) fn minimum_len(&self) -> usize | within=impl Patterns | res=r
//@@ sigsub 1 /pub\(crate\) fn/ => fn
//@@ header
        ensures r == self.minimum_len
//@@ end

// R-idx: `self.by_id[id]` -> `self.by_id[id.as_usize()]` (body of `Index<PatternID> for Vec<T>`);
// R-deref: `&Vec<u8>` -> `.as_slice()` (the coercion the compiler inserts)
//@@ fn src/packed/pattern.rs | pub(crate) fn get(&self, id: PatternID) -> Pattern<'_> | within=impl Patterns | res=r
//@@ sigsub 1 /pub\(crate\) fn/ => fn
//@@ sub 1 /Pattern\(&self\.by_id\[id\]\)/ => Pattern(self.by_id[id.as_usize()].as_slice())
//@@ header
        requires id.0 < self.by_id@.len(),      // the indexing panics otherwise (documented)
        ensures r.0@ == pv(self)[id.0 as int],
//@@ end

//@@ fn src/packed/pattern.rs | pub(crate) fn iter(&self) -> PatternIter<'_> | within=impl Patterns | res=r
//@@ sigsub 1 /pub\(crate\) fn/ => fn
//@@ header
        ensures r.patterns == self, r.i == 0,
//@@ end
}

impl PatternID {
    // identifier newtypes are u32 newtypes here (types.inc); `as_usize` is the widening cast
    fn as_usize(&self) -> (r: usize) ensures r == self.0 as usize { self.0 as usize }
}

//@@ item src/packed/pattern.rs | pub(crate) struct Pattern<'a>
//@@ sigsub 1 /pub\(crate\) struct/ => struct
//@@ end

//@@ item src/packed/pattern.rs | pub(crate) struct PatternIter<'p>
//@@ sigsub 1 /pub\(crate\) struct/ => struct
//@@ end

// `order` names patterns of the collection (a permutation of the identifiers: pats_wf before
// `set_match_kind` sorts it, and sorting permutes)
spec fn ord_ok(p: &Patterns) -> bool {
    &&& p.order@.len() == p.by_id@.len()
    &&& forall|i: int| 0 <= i < p.order@.len() ==> (#[trigger] p.order@[i]).0 < p.by_id@.len()
}

impl<'p> Pattern<'p> {
//@@ fn src/packed/pattern.rs | pub(crate) fn len(&self) -> usize | within=impl<'p> Pattern<'p> | res=r
//@@ sigsub 1 /pub\(crate\) fn/ => fn
//@@ header
        ensures r == self.0@.len()
//@@ end

//@@ fn src/packed/pattern.rs | pub(crate) fn bytes(&self) -> &[u8] | within=impl<'p> Pattern<'p> | res=r
//@@ sigsub 1 /pub\(crate\) fn/ => fn
//@@ header
        ensures r@ == self.0@
//@@ end
}

// R-trait: the `Iterator` impl as an inherent impl (only `next` is defined by the crate)
impl<'p> PatternIter<'p> {
// the contract unit u5_rabinkarp assumes of this function: the patterns in `order`, each with
// its own identifier and bytes, then None for good
//@@ fn src/packed/pattern.rs | fn next(&mut self) -> Option<(PatternID, Pattern<'p>)> | within=impl<'p> Iterator for PatternIter<'p> | res=r
//@@ header
        requires ord_ok(old(self).patterns),
        ensures
            final(self).patterns == old(self).patterns,
            old(self).i < pv(old(self).patterns).len() ==> {
                &&& r is Some
                &&& r->Some_0.0 == old(self).patterns.order@[old(self).i as int]
                &&& r->Some_0.1.0@ == pv(old(self).patterns)[r->Some_0.0.0 as int]
                &&& final(self).i == old(self).i + 1
            },
            old(self).i >= pv(old(self).patterns).len() ==> r is None && final(self).i == old(self).i,
//@@ end
}

struct Config { x: u8 }

//@@ item src/packed/api.rs | const PATTERN_LIMIT: usize
//@@ end

//@@ item src/packed/api.rs | pub struct Builder
//@@ sigsub 1 /pub struct/ => struct
//@@ end

// inert means: given up for good, holding nothing
spec fn bld_inv(b: &Builder) -> bool {
    &&& pats_wf(&b.patterns)
    &&& pv(&b.patterns).len() <= 128
    &&& (b.inert ==> pv(&b.patterns).len() == 0)
    &&& b.patterns.total_pattern_bytes <= 0xFFFF_FFFF_FFFF
}

impl Builder {
// R-mono: `add<P: AsRef<[u8]>>(&mut self, pattern: P)` at P = &[u8] (`as_ref` is the identity);
// R-chain: builder-style `-> &mut Builder` / `return self` dropped
//@@ fn src/packed/api.rs | pub fn add<P: AsRef<[u8]>>(&mut self, pattern: P) -> &mut Builder
//@@ sigsub 1 /pub fn add<P: AsRef<\[u8\]>>\(&mut self, pattern: P\) -> &mut Builder/ => fn add(&mut self, pattern: &[u8])
// R-const: `core::u16::MAX` (legacy module constant) -> `u16::MAX` (the same value)
//@@ sub 1 /core::u16::MAX/ => u16::MAX
//@@ sub + /return self;/ => return;
//@@ sub 1 /let pattern = pattern\.as_ref\(\);/ =>
//@@ sub 1 /\bself\s*\}\s*\Z/ => }
//@@ header
        requires bld_inv(old(self)), pattern@.len() <= 0xFFFF_FFFF,
        ensures
            final(self).patterns.total_pattern_bytes <= old(self).patterns.total_pattern_bytes + pattern@.len(),
            pats_wf(&final(self).patterns), pv(&final(self).patterns).len() <= 128,
            // the latch: an inert builder stays inert and empty whatever is added
            old(self).inert ==> final(self).inert && pv(&final(self).patterns).len() == 0,
            // giving up: the 129th pattern or an empty one empties the collection for good
            !old(self).inert && (pv(&old(self).patterns).len() >= 128 || pattern@.len() == 0)
                ==> final(self).inert && pv(&final(self).patterns).len() == 0,
            // otherwise the pattern is appended: its identifier is its position
            !old(self).inert && pv(&old(self).patterns).len() < 128 && pattern@.len() > 0
                ==> !final(self).inert && pv(&final(self).patterns) == pv(&old(self).patterns).push(pattern@),
//@@ end

// the two read-only accessors: what the collection says (0 for a builder that gave up)
//@@ fn src/packed/api.rs | pub fn len(&self) -> usize | within=impl Builder | res=r
//@@ sigsub 1 /pub fn/ => fn
//@@ header
        ensures r == pv(&self.patterns).len()
//@@ end

//@@ fn src/packed/api.rs | pub fn minimum_len(&self) -> usize | within=impl Builder | res=r
//@@ sigsub 1 /pub fn/ => fn
//@@ header
        ensures r == self.patterns.minimum_len
//@@ end
}

} // verus!
fn main() {}
