// UNIT u7_replace_str — the `&str` replace driver `Automaton::try_replace_all_with`
// (src/automaton.rs), behind AhoCorasick::{replace_all, replace_all_with, try_replace_all,
// try_replace_all_with}.  Properties: C12 (only matches of the iterator whose two ends are
// character boundaries are handed to the closure, with exactly their text; the text between
// matches is copied from boundary to boundary), C15 (a `str` is never sliced off a character
// boundary or out of order: no panic), C13 (rejected only by configuration), C19 (no rescanning:
// the iterator is only ever advanced by its own `next`).
// `str` / `String` operations are outside Verus' byte-level reasoning; they are modelled by trusted
// stubs with the contracts std documents (A-str): `is_char_boundary` decides the ghost predicate
// `cb`, slicing requires both ends to be boundaries in order, offsets 0 and len are boundaries.
//   R-strSlice: `&h[a..b]` -> `str_slice(h, a, b)`, `&h[a..]` -> `str_slice_from(h, a)`
//   R-cb: `h.is_char_boundary(i)` -> `str_is_char_boundary(h, i)`
//   R-pushStr: `dst.push_str(s)` -> `string_push_str(dst, s)` (effect on dst opaque, like the closure's)
//   R-asBytes: `Input::new(haystack)` at `&str` -> `Input::new(str_as_bytes(haystack))` (AsRef<[u8]> for str)
use vstd::prelude::*;
verus! {

//@@ include types.inc
//@@ include automaton.inc
//@@ include lemmas_scan.inc
//@@ include finditer.inc STUB=u1_iter

// R-self: the provided trait method `Automaton::try_find_iter` as a free function (verified in u7_replace)
//@@ fn src/automaton.rs | fn try_find_iter<'a, 'h>( | stub=u7_replace
//@@ sigsub 1 /fn try_find_iter<'a, 'h>\(\s*&'a self,/ => fn try_find_iter<'a, 'h, A: AutomatonS>(aut: &'a A,
//@@ sigsub 1 /FindIter<'a, 'h, Self>/ => FindIter<'a, 'h, A>
//@@ sigsub 1 /where\s+Self: Sized,/ =>
//@@ header
    requires aut_wf(aut), input.wf(),
    ensures
        (res is Ok) == (aut.start_s(input.anchored) is Some),
        res is Ok ==> res->Ok_0.aut == aut && res->Ok_0.input == input
            && res->Ok_0.last_match_end is None && res->Ok_0.inv(),
//@@ end

// ---- A-str: the documented contracts of the str / String operations used ----------------------
uninterp spec fn sb(h: &str) -> Seq<u8>;               // the bytes of a str
uninterp spec fn cb(h: &str, i: int) -> bool;          // i is a character boundary of h
uninterp spec fn ssub(h: &str, a: int, b: int) -> Seq<u8>;

#[verifier::external_body]
proof fn axiom_cb_ends(h: &str)
    ensures cb(h, 0), cb(h, sb(h).len() as int)
{}

#[verifier::external_body]
fn str_as_bytes<'h>(h: &'h str) -> (r: &'h [u8]) ensures r@ == sb(h) { h.as_bytes() }

#[verifier::external_body]
fn str_is_char_boundary(h: &str, i: usize) -> (r: bool) ensures r == cb(h, i as int) { h.is_char_boundary(i) }

// `&h[a..b]` panics unless a <= b <= len and both are character boundaries
#[verifier::external_body]
fn str_slice<'h>(h: &'h str, a: usize, b: usize) -> (r: &'h str)
    requires a <= b <= sb(h).len(), cb(h, a as int), cb(h, b as int),
    ensures sb(r) == ssub(h, a as int, b as int)
{ &h[a..b] }

#[verifier::external_body]
fn str_slice_from<'h>(h: &'h str, a: usize) -> (r: &'h str)
    requires a <= sb(h).len(), cb(h, a as int),
    ensures sb(r) == ssub(h, a as int, sb(h).len() as int)
{ &h[a..] }

#[verifier::external_body]
fn string_push_str(dst: &mut String, s: &str) { dst.push_str(s) }

// what the closure may rely on (C12): a match of the iterator whose ends are character
// boundaries, and exactly its text
spec fn replace_arg_ok_str(h: &str, m: Match, s: &str) -> bool {
    &&& m.span.start <= m.span.end <= sb(h).len()
    &&& cb(h, m.span.start as int) && cb(h, m.span.end as int)
    &&& sb(s) == ssub(h, m.span.start as int, m.span.end as int)
}

// R-self, R-forIter as in u7_replace
//@@ fn src/automaton.rs | fn try_replace_all_with<F>(
//@@ sigsub 1 /fn try_replace_all_with<F>\(\s*&self,/ => fn try_replace_all_with<A: AutomatonS, F>(aut: &A,
//@@ sigsub 1 /where\s+Self: Sized,/ => where
//@@ sub 1 /for m in self\.try_find_iter\(Input::new\(haystack\)\)\? \{/ => let mut it = try_find_iter(aut, Input::new(str_as_bytes(haystack)))?; loop { let m = match it.next() { Some(m) => m, None => break };
//@@ sub 2 /haystack\.is_char_boundary\(/ => str_is_char_boundary(haystack, 
//@@ sub 1 /&haystack\[([^\]]+?)\.\.\]/ => str_slice_from(haystack, \1)
//@@ sub 2 /&haystack\[([^\]]+?)\.\.([^\]]+?)\]/ => str_slice(haystack, \1, \2)
//@@ sub 2 /dst\.push_str\(/ => string_push_str(dst, 
//@@ header
    requires
        aut_wf(aut), sb(haystack).len() < usize::MAX,
        forall|m: Match, s: &str, d: &mut String| replace_arg_ok_str(haystack, m, s)
            ==> #[trigger] replace_with.requires((&m, s, d)),
    ensures
        // C13: only the configuration decides rejection
        (res is Ok) == (aut.start_s(Anchored::No) is Some),
//@@ after /\A\{/
    proof { axiom_cb_ends(haystack); }
//@@ loop 1
        invariant
            it.inv(), it.aut == aut, it.input.haystack@ == sb(haystack),
            it.input.span.end == sb(haystack).len(), it.input.anchored is No,
            last_match <= sb(haystack).len(), cb(haystack, last_match as int),
            cb(haystack, sb(haystack).len() as int),
            it.input.span.start <= it.input.span.end ==> last_match <= it.input.span.start,
            forall|m: Match, s: &str, d: &mut String| replace_arg_ok_str(haystack, m, s)
                ==> #[trigger] replace_with.requires((&m, s, d)),
        decreases it.input.span.end + 1 - it.input.span.start, (if it.last_match_end == Some(it.input.span.start) { 0int } else { 1int }),
//@@ end

} // verus!
fn main() {}
