// UNIT u1_search — the non-overlapping search loop and its dispatcher (src/automaton.rs)
// Properties: C01 C02 C05 C09 C10 C14 C15 C16 C19.  Engine: Verus.
use vstd::prelude::*;
verus! {

//@@ include types.inc
//@@ include automaton.inc

//@@ fn src/automaton.rs | fn get_match<A: Automaton + ?Sized>( | res=m
//@@ header
    requires aut_wf(aut), aut.valid_s(sid), aut.match_s(sid), index < aut.mlen_s(sid),
             aut.depth_s(sid) <= at,
    ensures m == mk_match(aut, sid, index as nat, at as int)
//@@ end

// C19: `steps` is a ghost counter incremented at the (single) next_state call site; the loop
// invariant `steps <= at - input.start` is "at most one automaton transition per byte".
//@@ fn src/automaton.rs | fn try_find_fwd_imp<A: Automaton + ?Sized>(
//@@ sub 1 /sid = aut\.next_state\(anchored, sid, input\.haystack\(\)\[at\]\);/ => proof { steps = steps + 1; } sid = aut.next_state(anchored, sid, input.haystack()[at]);
//@@ sub 1 /while at < input\.end\(\) \{/ => let ghost mut steps: int = 0; while at < input.end() {
//@@ header
    requires
        aut_wf(aut), input.wf(), input.span.start <= input.span.end,
        anchored == input.anchored,
        aut.kind_s() is Standard ==> earliest,
        pre is Some ==> anchored is No && aut.has_pre() && *(pre->Some_0) == aut.pre_s(),
        pre is None ==> !aut.has_pre() || anchored is Yes,
    ensures
        // C13/C16: fails exactly when the anchoring mode has no start state
        (res is Ok) == (aut.start_s(anchored) is Some),
        // C01/C02/C05/C09/C10/C14: the result is the abstract run's answer
        res is Ok ==> find_post(aut, anchored, earliest, pre is Some, input.haystack@,
                                input.span.start as int, input.span.end as int, res->Ok_0),
//@@ loop 1
        invariant
            aut_wf(aut), input.wf(), input.span.start <= at <= input.span.end,
            anchored == input.anchored,
            aut.start_s(anchored) is Some,
            aut.kind_s() is Standard ==> earliest,
            pre is Some ==> anchored is No && aut.has_pre() && *(pre->Some_0) == aut.pre_s(),
            pre is None ==> !aut.has_pre() || anchored is Yes,
            aut.valid_s(sid), aut.depth_s(sid) <= at - input.span.start,
            anchored is Yes ==> aut.areach_s(sid),
            anchored is Yes && at > input.span.start ==> aut.dead_s(sid) || !aut.startst_s(sid),
            pre is Some && mat is Some ==> aut.post_match(sid),
            earliest ==> mat is None,
            steps <= at - input.span.start, // [C19] one transition per byte
            !aut.dead_s(sid), // [C19] the loop is left at the first dead state: no call scans on after the answer is final
            find_spec(aut, anchored, earliest, input.haystack@, input.span.start as int, input.span.end as int)
                == scan(aut, anchored, earliest, input.haystack@, fstart(anchored, input.span.start as int),
                        input.span.end as int, at as int, sid, mat),
        decreases input.span.end - at,
//@@ after /let span = [^;]*;/
                proof {
                    // C19: the search advances monotonically — the prefilter is consulted from
                    // the current position only (never re-scanning bytes already passed)
                    assert(span.start == at && span.end == input.span.end); // [C19] [C10]
                    assert(aut.startst_s(sid));
                    assert(aut.start_s(Anchored::No) == Some(sid));
                    assert(mat is None);
                    assert(anchored is No);
                    assert(find_spec(aut, anchored, earliest, input.haystack@, input.span.start as int, input.span.end as int)
                      == scan(aut, Anchored::No, earliest, input.haystack@, None, input.span.end as int, at + 1, sid, None));
                }
//@@ end

//@@ fn src/automaton.rs | pub(crate) fn try_find_fwd<A: Automaton + ?Sized>(
//@@ sigsub 1 /pub\(crate\) fn/ => fn
//@@ header
    requires aut_wf(aut), input.wf(),
    ensures try_find_post(aut, input, res),
//@@ end

} // verus!
fn main() {}
