// UNIT l1_semantics — pure lemmas (no code): the abstract-run postconditions proved for the real
// search functions imply the property statements, given the semantic contract SC of the built
// automaton.  Properties: C02 (L-std).  Engine: Verus.
use vstd::prelude::*;
verus! {

//@@ include types.inc
//@@ include automaton.inc
//@@ include sem_spec.inc
//@@ include stream_spec.inc
//@@ include lemmas_scan.inc

proof fn lemma_run_step<A: Automaton + ?Sized>(a: &A, h: Seq<u8>, s: int, at: int, s0: StateID)
    requires 0 <= s <= at < h.len(),
    ensures run_no(a, h, s, at + 1, s0) == a.delta(Anchored::No, run_no(a, h, s, at, s0), h[at]),
{
    reveal_with_fuel(run_no, 2);
}

// scanning from position `at` in state run(s..at): invariant "nothing occurs ending in (s, at]"
proof fn lemma_std_scan<A: Automaton + ?Sized>(a: &A, pats: Pats, ci: bool, h: Seq<u8>, s: int, e: int, at: int)
    requires
        aut_wf(a), sc_std(a, pats, ci), 0 <= s <= at <= e <= h.len(), e <= usize::MAX,
        // no occurrence inside the span ends at or before `at`
        forall|m: M| occ_in(pats, ci, h, s, e, false, m) ==> m.end > at,
    ensures
        ({
            let st = run_no(a, h, s, at, a.start_s(Anchored::No)->Some_0);
            let r = scan(a, Anchored::No, true, h, None, e, at, st, None);
            is_find_std(pats, ci, h, s, e, match r { Some(m) => Some(to_m(m)), None => None })
        }),
    decreases e - at
{
    //@@ canary lemma_std_scan
    let s0 = a.start_s(Anchored::No)->Some_0;
    let st = run_no(a, h, s, at, s0);
    if at >= e {
        // nothing ends in (s, e]: nothing occurs at all
        assert forall|m: M| !occ_in(pats, ci, h, s, e, false, m) by {
            if occ_in(pats, ci, h, s, e, false, m) { assert(m.end > at); }
        }
    } else {
        let s2 = a.delta(Anchored::No, st, h[at]);
        lemma_run_step(a, h, s, at, s0);
        assert(run_no(a, h, s, at + 1, s0) == s2);
        let k = at + 1;
        assert(!a.dead_s(s2));
        if a.match_s(s2) {
            let m0 = mk_match(a, s2, 0, k);
            let p0 = a.mpat_s(s2, 0);
            let best = M { pid: p0.0 as int, start: k - a.plen_s(p0), end: k };
            assert(occ_in(pats, ci, h, s, k, false, best));
            assert(to_m(m0) == best);
            assert(occ_in(pats, ci, h, s, e, false, best));
            assert forall|b: M| occ_in(pats, ci, h, s, e, false, b) && b != best implies better_std(best, b) by {
                assert(b.end > at);
                if b.end == k {
                    assert(occ_in(pats, ci, h, s, k, false, b));
                    let i = choose|i: nat| i < a.mlen_s(s2) && #[trigger] a.mpat_s(s2, i) == PatternID(b.pid as u32);
                    assert(a.plen_s(a.mpat_s(s2, i)) == pats[b.pid].len());
                    assert(b.start == k - a.plen_s(a.mpat_s(s2, i)));
                    if i == 0 {
                        assert(b == best);
                    } else {
                        // list order: entry 0 is longer, or equally long and supplied earlier
                        assert(a.plen_s(a.mpat_s(s2, 0)) > a.plen_s(a.mpat_s(s2, i))
                            || (a.plen_s(a.mpat_s(s2, 0)) == a.plen_s(a.mpat_s(s2, i)) && a.mpat_s(s2, 0).0 < a.mpat_s(s2, i).0));
                    }
                }
            }
        } else {
            // not a match state: nothing ends at k either
            assert forall|m: M| occ_in(pats, ci, h, s, e, false, m) implies m.end > k by {
                assert(m.end > at);
                if m.end == k {
                    assert(occ_in(pats, ci, h, s, k, false, m));
                }
            }
            lemma_std_scan(a, pats, ci, h, s, e, k);
        }
    }
}

// L-std (C02): for a standard automaton satisfying AC and SC-std whose start state is not a match
// state (no empty pattern), the abstract-run answer find_spec — which the real try_find_fwd is
// proved to return (unit u1_search) — is exactly the earliest-ending, then longest, then
// first-supplied occurrence inside the span, and None iff nothing occurs.
proof fn lemma_std_find<A: Automaton + ?Sized>(a: &A, pats: Pats, ci: bool, h: Seq<u8>, s: int, e: int)
    requires
        aut_wf(a), sc_std(a, pats, ci), 0 <= s <= e <= h.len(), e <= usize::MAX,
        !a.match_s(a.start_s(Anchored::No)->Some_0),
    ensures
        is_find_std(pats, ci, h, s, e, match find_spec(a, Anchored::No, true, h, s, e) { Some(m) => Some(to_m(m)), None => None }),
{
    //@@ canary lemma_std_find
    let s0 = a.start_s(Anchored::No)->Some_0;
    assert(run_no(a, h, s, s, s0) == s0);
    // the start state is not a match state, so nothing ends at s (an occurrence ending at s inside
    // the span is the empty pattern at s)
    assert forall|m: M| occ_in(pats, ci, h, s, e, false, m) implies m.end > s by {
        if m.end <= s {
            assert(m.end == s && m.start == s);
            assert(occ_in(pats, ci, h, s, s, false, m));
            assert(a.match_s(run_no(a, h, s, s, s0)));
        }
    }
    lemma_std_scan(a, pats, ci, h, s, e, s);
}

// ---- L-ov (C03) -------------------------------------------------------------------------------
// order of the overlapping listing: end asc, then longer first (smaller start), then supply order
spec fn ov_before(a: M, b: M) -> bool {
    a.end < b.end || (a.end == b.end && a.start < b.start)
        || (a.end == b.end && a.start == b.start && a.pid < b.pid)
}

// `out` is exactly the occurrences inside the span that end after `lo`, each once, in that order
spec fn ov_ok(pats: Pats, ci: bool, h: Seq<u8>, s: int, e: int, lo: int, out: Seq<Match>) -> bool {
    &&& forall|i: int| 0 <= i < out.len() ==> occ_in(pats, ci, h, s, e, false, to_m(#[trigger] out[i])) && to_m(out[i]).end > lo
    &&& forall|i: int, j: int| 0 <= i < j < out.len() ==> ov_before(to_m(#[trigger] out[i]), to_m(#[trigger] out[j]))
    &&& forall|m: M| #[trigger] occ_in(pats, ci, h, s, e, false, m) && m.end > lo ==> exists|i: int| 0 <= i < out.len() && to_m(#[trigger] out[i]) == m
}

// an unanchored search keeps every match of a state: the list is the plain enumeration
proof fn lemma_state_matches_all<A: Automaton + ?Sized>(a: &A, st: StateID, i: nat, k: int)
    requires i <= a.mlen_s(st),
    ensures
        state_matches(a, None, st, i, k).len() == a.mlen_s(st) - i,
        forall|j: int| 0 <= j < a.mlen_s(st) - i ==> #[trigger] state_matches(a, None, st, i, k)[j] == mk_match(a, st, (i + j) as nat, k),
    decreases a.mlen_s(st) - i
{
    if i < a.mlen_s(st) {
        lemma_state_matches_all(a, st, i + 1, k);
        let rest = state_matches(a, None, st, i + 1, k);
        let m = mk_match(a, st, i, k);
        assert(state_matches(a, None, st, i, k) =~= seq![m] + rest);
        assert forall|j: int| 0 <= j < a.mlen_s(st) - i implies #[trigger] state_matches(a, None, st, i, k)[j] == mk_match(a, st, (i + j) as nat, k) by {
            if j > 0 {
                assert(state_matches(a, None, st, i, k)[j] == rest[j - 1]);
            }
        }
    }
}

proof fn lemma_ov_from<A: Automaton + ?Sized>(a: &A, pats: Pats, ci: bool, h: Seq<u8>, s: int, e: int, at: int)
    requires aut_wf(a), sc_std(a, pats, ci), 0 <= s <= at <= e <= h.len(), e <= usize::MAX,
    ensures ov_ok(pats, ci, h, s, e, at,
                  ov_from(a, Anchored::No, h, None, e, at, run_no(a, h, s, at, a.start_s(Anchored::No)->Some_0))),
    decreases e - at
{
    //@@ canary lemma_ov_from
    let s0 = a.start_s(Anchored::No)->Some_0;
    let st = run_no(a, h, s, at, s0);
    let out = ov_from(a, Anchored::No, h, None, e, at, st);
    if at >= e {
        assert(out.len() == 0);
    } else {
        let k = at + 1;
        let s2 = a.delta(Anchored::No, st, h[at]);
        lemma_run_step(a, h, s, at, s0);
        assert(run_no(a, h, s, k, s0) == s2);
        assert(!a.dead_s(s2));
        lemma_ov_from(a, pats, ci, h, s, e, k);
        let r = ov_from(a, Anchored::No, h, None, e, k, s2);
        if a.match_s(s2) {
            lemma_state_matches_all(a, s2, 0, k);
            let l = state_matches(a, None, s2, 0, k);
            assert(out == l + r);
            // every element of l is an occurrence ending exactly at k
            assert forall|i: int| 0 <= i < l.len() implies occ_in(pats, ci, h, s, e, false, to_m(#[trigger] l[i])) && to_m(l[i]).end == k by {
                let p = a.mpat_s(s2, i as nat);
                assert(a.plen_s(p) <= a.depth_s(s2));
                assert(occ_in(pats, ci, h, s, k, false, M { pid: p.0 as int, start: k - a.plen_s(p), end: k }));
                assert(l[i] == mk_match(a, s2, i as nat, k));
            }
            assert forall|i: int| 0 <= i < out.len() implies occ_in(pats, ci, h, s, e, false, to_m(#[trigger] out[i])) && to_m(out[i]).end > at by {
                if i < l.len() { assert(out[i] == l[i]); } else { assert(out[i] == r[i - l.len()]); }
            }
            assert forall|i: int, j: int| 0 <= i < j < out.len() implies ov_before(to_m(#[trigger] out[i]), to_m(#[trigger] out[j])) by {
                if j < l.len() {
                    assert(out[i] == l[i] && out[j] == l[j]);
                    let (pi, pj) = (a.mpat_s(s2, i as nat), a.mpat_s(s2, j as nat));
                    assert(a.plen_s(pi) > a.plen_s(pj) || (a.plen_s(pi) == a.plen_s(pj) && pi.0 < pj.0));
                    assert(a.plen_s(pi) <= a.depth_s(s2) && a.plen_s(pj) <= a.depth_s(s2));
                } else if i < l.len() {
                    assert(out[i] == l[i] && out[j] == r[j - l.len()]);
                    assert(to_m(r[j - l.len()]).end > k);
                } else {
                    assert(out[i] == r[i - l.len()] && out[j] == r[j - l.len()]);
                }
            }
            assert forall|m: M| #[trigger] occ_in(pats, ci, h, s, e, false, m) && m.end > at implies exists|i: int| 0 <= i < out.len() && to_m(#[trigger] out[i]) == m by {
                if m.end == k {
                    assert(occ_in(pats, ci, h, s, k, false, m));
                    let i = choose|i: nat| i < a.mlen_s(s2) && #[trigger] a.mpat_s(s2, i) == PatternID(m.pid as u32);
                    assert(a.plen_s(a.mpat_s(s2, i)) == pats[m.pid].len());
                    assert(a.plen_s(a.mpat_s(s2, i)) <= a.depth_s(s2));
                    assert(out[i as int] == l[i as int]);
                    assert(to_m(out[i as int]) == m);
                } else {
                    let i = choose|i: int| 0 <= i < r.len() && to_m(#[trigger] r[i]) == m;
                    assert(out[l.len() + i] == r[i]);
                }
            }
        } else {
            assert(out == r);
            assert forall|m: M| #[trigger] occ_in(pats, ci, h, s, e, false, m) && m.end > at implies m.end > k by {
                if m.end == k { assert(occ_in(pats, ci, h, s, k, false, m)); }
            }
        }
    }
}

// L-ov (C03): for a standard automaton satisfying AC and SC-std, the listing that the real
// overlapping stepper is proved to report element by element (ov_remaining of a fresh state =
// ov_list, unit u1_overlap) is every occurrence inside the span exactly once, ordered by end,
// then longer first, then supply order.
proof fn lemma_ov_list<A: Automaton + ?Sized>(a: &A, pats: Pats, ci: bool, h: Seq<u8>, s: int, e: int)
    requires aut_wf(a), sc_std(a, pats, ci), 0 <= s <= e <= h.len(), e <= usize::MAX,
    ensures ov_ok(pats, ci, h, s, e, s - 1, ov_list(a, Anchored::No, h, s, e)),
{
    //@@ canary lemma_ov_list
    let s0 = a.start_s(Anchored::No)->Some_0;
    assert(run_no(a, h, s, s, s0) == s0);
    lemma_ov_from(a, pats, ci, h, s, e, s);
    let r = ov_from(a, Anchored::No, h, None, e, s, s0);
    let out = ov_list(a, Anchored::No, h, s, e);
    if a.match_s(s0) {
        lemma_state_matches_all(a, s0, 0, s);
        let l = state_matches(a, None, s0, 0, s);
        assert(out == l + r);
        assert forall|i: int| 0 <= i < l.len() implies occ_in(pats, ci, h, s, e, false, to_m(#[trigger] l[i])) && to_m(l[i]).end == s by {
            let p = a.mpat_s(s0, i as nat);
            assert(a.plen_s(p) <= a.depth_s(s0));
            assert(occ_in(pats, ci, h, s, s, false, M { pid: p.0 as int, start: s - a.plen_s(p), end: s }));
            assert(l[i] == mk_match(a, s0, i as nat, s));
        }
        assert forall|i: int| 0 <= i < out.len() implies occ_in(pats, ci, h, s, e, false, to_m(#[trigger] out[i])) && to_m(out[i]).end > s - 1 by {
            if i < l.len() { assert(out[i] == l[i]); } else { assert(out[i] == r[i - l.len()]); }
        }
        assert forall|i: int, j: int| 0 <= i < j < out.len() implies ov_before(to_m(#[trigger] out[i]), to_m(#[trigger] out[j])) by {
            if j < l.len() {
                assert(out[i] == l[i] && out[j] == l[j]);
                let (pi, pj) = (a.mpat_s(s0, i as nat), a.mpat_s(s0, j as nat));
                assert(a.plen_s(pi) > a.plen_s(pj) || (a.plen_s(pi) == a.plen_s(pj) && pi.0 < pj.0));
                assert(a.plen_s(pi) <= a.depth_s(s0) && a.plen_s(pj) <= a.depth_s(s0));
            } else if i < l.len() {
                assert(out[i] == l[i] && out[j] == r[j - l.len()]);
            } else {
                assert(out[i] == r[i - l.len()] && out[j] == r[j - l.len()]);
            }
        }
        assert forall|m: M| #[trigger] occ_in(pats, ci, h, s, e, false, m) && m.end > s - 1 implies exists|i: int| 0 <= i < out.len() && to_m(#[trigger] out[i]) == m by {
            if m.end == s {
                assert(occ_in(pats, ci, h, s, s, false, m));
                let i = choose|i: nat| i < a.mlen_s(s0) && #[trigger] a.mpat_s(s0, i) == PatternID(m.pid as u32);
                assert(a.plen_s(a.mpat_s(s0, i)) == pats[m.pid].len());
                assert(out[i as int] == l[i as int]);
                assert(to_m(out[i as int]) == m);
            } else {
                let i = choose|i: int| 0 <= i < r.len() && to_m(#[trigger] r[i]) == m;
                assert(out[l.len() + i] == r[i]);
            }
        }
    } else {
        assert(out =~= r);
        assert forall|m: M| #[trigger] occ_in(pats, ci, h, s, e, false, m) && m.end > s - 1 implies m.end > s by {
            if m.end == s { assert(occ_in(pats, ci, h, s, s, false, m)); }
        }
    }
}

// ---- L-stream (C07) ----------------------------------------------------------------------------
// the in-memory non-overlapping iteration of a standard searcher without empty patterns: repeat
// the (earliest) search from the end of the previous match
spec fn iter_seq<A: Automaton + ?Sized>(a: &A, h: Seq<u8>, from: int) -> Seq<Match>
    decreases h.len() - from
{
    if from < 0 || from > h.len() { Seq::empty() } else {
        match find_spec(a, Anchored::No, true, h, from, h.len() as int) {
            None => Seq::empty(),
            Some(m) => if m.span.end > from && m.span.end <= h.len() { seq![m] + iter_seq(a, h, m.span.end as int) } else { Seq::empty() },
        }
    }
}

proof fn lemma_st_rest_dead<A: Automaton + ?Sized>(a: &A, h: Seq<u8>, at: int, sid: StateID)
    requires aut_wf(a), a.valid_s(sid), a.dead_s(sid), 0 <= at,
    ensures st_rest(a, h, at, sid).len() == 0,
    decreases h.len() - at
{
    if at < h.len() {
        let s2 = a.delta(Anchored::No, sid, h[at]);
        assert(a.dead_s(s2));
        lemma_st_rest_dead(a, h, at + 1, s2);
    }
}

// the stream run from (at, sid) = first earliest match of the scan, then the stream run restarted
// in the start state at its end
proof fn lemma_st_rest_scan<A: Automaton + ?Sized>(a: &A, h: Seq<u8>, at: int, sid: StateID)
    requires aut_wf(a), a.valid_s(sid), 0 <= at <= h.len() <= usize::MAX, a.start_s(Anchored::No) is Some,
             a.dead_s(sid) || a.depth_s(sid) <= at,
    ensures
        ({
            let r = scan(a, Anchored::No, true, h, None, h.len() as int, at, sid, None);
            match r {
                None => st_rest(a, h, at, sid).len() == 0,
                Some(m) => at < m.span.end <= h.len()
                    && st_rest(a, h, at, sid) == seq![m] + st_rest(a, h, m.span.end as int, a.start_s(Anchored::No)->Some_0),
            }
        }),
    decreases h.len() - at
{
    //@@ canary lemma_st_rest_scan
    if at < h.len() {
        let s2 = a.delta(Anchored::No, sid, h[at]);
        if a.dead_s(s2) {
            lemma_st_rest_dead(a, h, at + 1, s2);
        } else if a.match_s(s2) {
            assert(!a.dead_s(sid));
            assert(a.plen_s(a.mpat_s(s2, 0)) <= a.depth_s(s2));
        } else {
            assert(!a.dead_s(sid));
            lemma_st_rest_scan(a, h, at + 1, s2);
        }
    }
}

// L-stream (C07): what the real stream iterator is proved to yield (st_rest from the start state at
// offset `from`; unit u2_stream) is exactly what the in-memory iterator yields on the
// concatenated stream (repetition of find_spec; units u1_search/u1_iter) — for every standard
// automaton satisfying AC without an empty pattern.  No semantic assumption on the automaton.
proof fn lemma_stream_eq_memory<A: Automaton + ?Sized>(a: &A, h: Seq<u8>, from: int)
    requires aut_wf(a), a.start_s(Anchored::No) is Some, 0 <= from <= h.len() <= usize::MAX,
             !a.match_s(a.start_s(Anchored::No)->Some_0),
    ensures st_rest(a, h, from, a.start_s(Anchored::No)->Some_0) == iter_seq(a, h, from),
    decreases h.len() - from
{
    //@@ canary lemma_stream_eq_memory
    let s0 = a.start_s(Anchored::No)->Some_0;
    lemma_st_rest_scan(a, h, from, s0);
    let r = scan(a, Anchored::No, true, h, None, h.len() as int, from, s0, None);
    assert(find_spec(a, Anchored::No, true, h, from, h.len() as int) == r);
    match r {
        None => {}
        Some(m) => { lemma_stream_eq_memory(a, h, m.span.end as int); }
    }
}

// ---- L-lm (C01) --------------------------------------------------------------------------------
proof fn lemma_lm_scan<A: Automaton + ?Sized>(a: &A, pats: Pats, ci: bool, kind: LKind, h: Seq<u8>, s: int, e: int, at: int)
    requires
        aut_wf(a), sc_lm(a, pats, ci, kind), 0 <= s <= at <= e <= h.len(), e <= usize::MAX,
        alive(a, h, s, at),
    ensures
        is_find_lm(pats, ci, kind, h, s, e,
            opt_m(scan(a, Anchored::No, false, h, None, e, at, run_no(a, h, s, at, a.start_s(Anchored::No)->Some_0), lastmatch(a, h, s, at)))),
    decreases e - at
{
    //@@ canary lemma_lm_scan
    let s0 = a.start_s(Anchored::No)->Some_0;
    let st = run_no(a, h, s, at, s0);
    if at >= e {
        assert(at == e);
    } else {
        let s2 = a.delta(Anchored::No, st, h[at]);
        lemma_run_step(a, h, s, at, s0);
        if a.dead_s(s2) {
            // death: the pending match is final for the whole span
            assert(is_find_lm(pats, ci, kind, h, s, e, opt_m(lastmatch(a, h, s, at))));
        } else {
            assert(alive(a, h, s, at + 1)) by {
                assert forall|j: int| s <= j <= at + 1 implies !a.dead_s(#[trigger] run_no(a, h, s, j, s0)) by {
                    if j <= at { assert(alive(a, h, s, at)); }
                }
            }
            lemma_lm_scan(a, pats, ci, kind, h, s, e, at + 1);
        }
    }
}

// L-lm (C01): for a leftmost automaton satisfying AC and SC-lm, the abstract-run answer find_spec
// that the real try_find_fwd is proved to return is the occurrence with the smallest start inside
// the span, choosing at that start the first-supplied (resp. longest, ties first-supplied) pattern.
proof fn lemma_lm_find<A: Automaton + ?Sized>(a: &A, pats: Pats, ci: bool, kind: LKind, h: Seq<u8>, s: int, e: int)
    requires aut_wf(a), sc_lm(a, pats, ci, kind), 0 <= s <= e <= h.len(), e <= usize::MAX,
    ensures is_find_lm(pats, ci, kind, h, s, e, opt_m(find_spec(a, Anchored::No, false, h, s, e))),
{
    //@@ canary lemma_lm_find
    let s0 = a.start_s(Anchored::No)->Some_0;
    assert(run_no(a, h, s, s, s0) == s0);
    assert(alive(a, h, s, s));
    lemma_lm_scan(a, pats, ci, kind, h, s, e, s);
}

} // verus!
fn main() {}
