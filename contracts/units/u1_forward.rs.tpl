// UNIT u1_forward — the two forwarding implementations of the `Automaton` trait:
// `impl Automaton for &A` (src/automaton.rs; used whenever a borrowed automaton is handed to code
// generic over `A: Automaton`, e.g. the stream and replace drivers) and `impl Automaton for
// Arc<dyn AcAutomaton>` (src/ahocorasick.rs; every call of the `AhoCorasick` front end goes
// through it).  The abstract automaton of a reference is that of its referent (the ghost functions
// below forward); each real method body `(**self).f(..)` must then satisfy the trait contract,
// i.e. return what the *same-named* method of the referent returns.  Properties: C04 C16 (the
// front end and a borrowed automaton behave like the automaton), C07 C08 (max_pattern_len sizes
// the roll buffer), C20 (metadata).
// R-dyn: `Arc<dyn AcAutomaton>` -> `Box<A>` (a smart pointer whose `Deref` target implements the
// trait); the explicit `try_find` / `try_find_overlapping` forwards of that impl are not included
// (their contracts are stated over the provided-method trait; bounded `sem` compares the front end
// with the low-level automata).
use vstd::prelude::*;
verus! {

//@@ include types.inc
//@@ include automaton.inc

impl<'a, A: Automaton + ?Sized> Automaton for &'a A {
    spec fn start_s(&self, anchored: Anchored) -> Option<StateID> { (**self).start_s(anchored) }
    spec fn delta(&self, anchored: Anchored, s: StateID, b: u8) -> StateID { (**self).delta(anchored, s, b) }
    spec fn special_s(&self, s: StateID) -> bool { (**self).special_s(s) }
    spec fn dead_s(&self, s: StateID) -> bool { (**self).dead_s(s) }
    spec fn match_s(&self, s: StateID) -> bool { (**self).match_s(s) }
    spec fn startst_s(&self, s: StateID) -> bool { (**self).startst_s(s) }
    spec fn mpat_s(&self, s: StateID, i: nat) -> PatternID { (**self).mpat_s(s, i) }
    spec fn mlen_s(&self, s: StateID) -> nat { (**self).mlen_s(s) }
    spec fn plen_s(&self, p: PatternID) -> nat { (**self).plen_s(p) }
    spec fn npat_s(&self) -> nat { (**self).npat_s() }
    spec fn minlen_s(&self) -> nat { (**self).minlen_s() }
    spec fn maxlen_s(&self) -> nat { (**self).maxlen_s() }
    spec fn depth_s(&self, s: StateID) -> nat { (**self).depth_s(s) }
    spec fn valid_s(&self, s: StateID) -> bool { (**self).valid_s(s) }
    spec fn has_pre(&self) -> bool { (**self).has_pre() }
    spec fn post_match(&self, s: StateID) -> bool { (**self).post_match(s) }
    spec fn areach_s(&self, s: StateID) -> bool { (**self).areach_s(s) }
    spec fn kind_s(&self) -> MatchKind { (**self).kind_s() }
    spec fn pre_s(&self) -> Prefilter { (**self).pre_s() }

//@@ fn src/automaton.rs | fn start_state(&self, anchored: Anchored) -> Result<StateID, MatchError> | within=unsafe impl<'a, A: Automaton + ?Sized> Automaton for &'a A
//@@ end
//@@ fn src/automaton.rs | fn next_state( | within=unsafe impl<'a, A: Automaton + ?Sized> Automaton for &'a A
//@@ end
//@@ fn src/automaton.rs | fn is_special(&self, sid: StateID) -> bool | within=unsafe impl<'a, A: Automaton + ?Sized> Automaton for &'a A
//@@ end
//@@ fn src/automaton.rs | fn is_dead(&self, sid: StateID) -> bool | within=unsafe impl<'a, A: Automaton + ?Sized> Automaton for &'a A
//@@ end
//@@ fn src/automaton.rs | fn is_match(&self, sid: StateID) -> bool | within=unsafe impl<'a, A: Automaton + ?Sized> Automaton for &'a A
//@@ end
//@@ fn src/automaton.rs | fn is_start(&self, sid: StateID) -> bool | within=unsafe impl<'a, A: Automaton + ?Sized> Automaton for &'a A
//@@ end
//@@ fn src/automaton.rs | fn match_kind(&self) -> MatchKind | within=unsafe impl<'a, A: Automaton + ?Sized> Automaton for &'a A
//@@ end
//@@ fn src/automaton.rs | fn match_len(&self, sid: StateID) -> usize | within=unsafe impl<'a, A: Automaton + ?Sized> Automaton for &'a A
//@@ end
//@@ fn src/automaton.rs | fn match_pattern(&self, sid: StateID, index: usize) -> PatternID | within=unsafe impl<'a, A: Automaton + ?Sized> Automaton for &'a A
//@@ end
//@@ fn src/automaton.rs | fn patterns_len(&self) -> usize | within=unsafe impl<'a, A: Automaton + ?Sized> Automaton for &'a A
//@@ end
//@@ fn src/automaton.rs | fn pattern_len(&self, pid: PatternID) -> usize | within=unsafe impl<'a, A: Automaton + ?Sized> Automaton for &'a A
//@@ end
//@@ fn src/automaton.rs | fn min_pattern_len(&self) -> usize | within=unsafe impl<'a, A: Automaton + ?Sized> Automaton for &'a A
//@@ end
//@@ fn src/automaton.rs | fn max_pattern_len(&self) -> usize | within=unsafe impl<'a, A: Automaton + ?Sized> Automaton for &'a A
//@@ end
//@@ fn src/automaton.rs | fn prefilter(&self) -> Option<&Prefilter> | within=unsafe impl<'a, A: Automaton + ?Sized> Automaton for &'a A
//@@ end
}

impl<A: Automaton> Automaton for Box<A> {
    spec fn start_s(&self, anchored: Anchored) -> Option<StateID> { (**self).start_s(anchored) }
    spec fn delta(&self, anchored: Anchored, s: StateID, b: u8) -> StateID { (**self).delta(anchored, s, b) }
    spec fn special_s(&self, s: StateID) -> bool { (**self).special_s(s) }
    spec fn dead_s(&self, s: StateID) -> bool { (**self).dead_s(s) }
    spec fn match_s(&self, s: StateID) -> bool { (**self).match_s(s) }
    spec fn startst_s(&self, s: StateID) -> bool { (**self).startst_s(s) }
    spec fn mpat_s(&self, s: StateID, i: nat) -> PatternID { (**self).mpat_s(s, i) }
    spec fn mlen_s(&self, s: StateID) -> nat { (**self).mlen_s(s) }
    spec fn plen_s(&self, p: PatternID) -> nat { (**self).plen_s(p) }
    spec fn npat_s(&self) -> nat { (**self).npat_s() }
    spec fn minlen_s(&self) -> nat { (**self).minlen_s() }
    spec fn maxlen_s(&self) -> nat { (**self).maxlen_s() }
    spec fn depth_s(&self, s: StateID) -> nat { (**self).depth_s(s) }
    spec fn valid_s(&self, s: StateID) -> bool { (**self).valid_s(s) }
    spec fn has_pre(&self) -> bool { (**self).has_pre() }
    spec fn post_match(&self, s: StateID) -> bool { (**self).post_match(s) }
    spec fn areach_s(&self, s: StateID) -> bool { (**self).areach_s(s) }
    spec fn kind_s(&self) -> MatchKind { (**self).kind_s() }
    spec fn pre_s(&self) -> Prefilter { (**self).pre_s() }

//@@ fn src/ahocorasick.rs | fn start_state(&self, anchored: Anchored) -> Result<StateID, MatchError> | within=unsafe impl Automaton for Arc<dyn AcAutomaton>
//@@ end
//@@ fn src/ahocorasick.rs | fn next_state( | within=unsafe impl Automaton for Arc<dyn AcAutomaton>
//@@ end
//@@ fn src/ahocorasick.rs | fn is_special(&self, sid: StateID) -> bool | within=unsafe impl Automaton for Arc<dyn AcAutomaton>
//@@ end
//@@ fn src/ahocorasick.rs | fn is_dead(&self, sid: StateID) -> bool | within=unsafe impl Automaton for Arc<dyn AcAutomaton>
//@@ end
//@@ fn src/ahocorasick.rs | fn is_match(&self, sid: StateID) -> bool | within=unsafe impl Automaton for Arc<dyn AcAutomaton>
//@@ end
//@@ fn src/ahocorasick.rs | fn is_start(&self, sid: StateID) -> bool | within=unsafe impl Automaton for Arc<dyn AcAutomaton>
//@@ end
//@@ fn src/ahocorasick.rs | fn match_kind(&self) -> MatchKind | within=unsafe impl Automaton for Arc<dyn AcAutomaton>
//@@ end
//@@ fn src/ahocorasick.rs | fn match_len(&self, sid: StateID) -> usize | within=unsafe impl Automaton for Arc<dyn AcAutomaton>
//@@ end
//@@ fn src/ahocorasick.rs | fn match_pattern(&self, sid: StateID, index: usize) -> PatternID | within=unsafe impl Automaton for Arc<dyn AcAutomaton>
//@@ end
//@@ fn src/ahocorasick.rs | fn patterns_len(&self) -> usize | within=unsafe impl Automaton for Arc<dyn AcAutomaton>
//@@ end
//@@ fn src/ahocorasick.rs | fn pattern_len(&self, pid: PatternID) -> usize | within=unsafe impl Automaton for Arc<dyn AcAutomaton>
//@@ end
//@@ fn src/ahocorasick.rs | fn min_pattern_len(&self) -> usize | within=unsafe impl Automaton for Arc<dyn AcAutomaton>
//@@ end
//@@ fn src/ahocorasick.rs | fn max_pattern_len(&self) -> usize | within=unsafe impl Automaton for Arc<dyn AcAutomaton>
//@@ end
//@@ fn src/ahocorasick.rs | fn prefilter(&self) -> Option<&Prefilter> | within=unsafe impl Automaton for Arc<dyn AcAutomaton>
//@@ end
}

} // verus!
fn main() {}
