"""Kani/CBMC on a scratch copy of the real crate (DESIGN.md 2.2).

Harness files from /verif/kani/*.rs are appended to the copied source files so that they see
private items; /repo is never modified.  The copy and its target directory are removed afterwards.
"""
import hashlib
import json
import os
import re
import shutil
import subprocess
import tempfile
import time

VERIF = os.path.dirname(os.path.dirname(os.path.abspath(__file__)))
REPO = os.environ.get('VERIF_REPO', '/repo')
CACHE = os.path.join(VERIF, '.cache', 'kani')

with open(os.path.join(VERIF, 'kani', 'groups.json')) as _f:
    GROUPS = json.load(_f)


def _tree_hash(paths):
    h = hashlib.sha256()
    for p in sorted(paths):
        h.update(p.encode())
        with open(p, 'rb') as f:
            h.update(f.read())
    return h.hexdigest()


def _src_files():
    out = []
    for root, _d, files in os.walk(os.path.join(REPO, 'src')):
        for fn in files:
            if fn.endswith('.rs'):
                out.append(os.path.join(root, fn))
    out.append(os.path.join(REPO, 'Cargo.toml'))
    return out


def run(group, tier, opts=None):
    t0 = time.time()
    g = GROUPS[group]
    harness_files = [os.path.join(VERIF, 'kani', a['harness']) for a in g['append']]
    extra = [os.path.join(VERIF, 'kani', 'memchr_spec', 'src', 'lib.rs')] if g.get('memchr_spec') else []
    key = _tree_hash(_src_files() + harness_files + extra + [os.path.join(VERIF, 'kani', 'groups.json')])
    cpath = os.path.join(CACHE, '%s-%s.json' % (group, key[:24]))
    if tier == 'quick' and os.path.exists(cpath):
        with open(cpath) as f:
            r = json.load(f)
        r['cached'] = True
        r['wall_s'] = time.time() - t0
        return r
    tmp = tempfile.mkdtemp(prefix='acK-')
    try:
        dst = os.path.join(tmp, 'crate')
        shutil.copytree(REPO, dst, ignore=shutil.ignore_patterns('target', '.git', 'benchmarks', 'fuzz', 'aho-corasick-debug'))
        for a in g['append']:
            with open(os.path.join(dst, a['file']), 'a') as f, open(os.path.join(VERIF, 'kani', a['harness'])) as h:
                f.write('\n' + h.read())
        ct = os.path.join(dst, 'Cargo.toml')
        with open(ct) as f:
            toml = f.read()
        # the workspace members (benchmarks etc.) are not copied
        toml += '\n[workspace]\n'
        if g.get('memchr_spec'):
            toml += '\n[patch.crates-io]\nmemchr = { path = "%s" }\n' % os.path.join(VERIF, 'kani', 'memchr_spec')
        with open(ct, 'w') as f:
            f.write(toml)
        os.makedirs(os.path.join(dst, '.cargo'), exist_ok=True)
        with open(os.path.join(dst, '.cargo', 'config.toml'), 'w') as f:
            f.write('[net]\noffline = true\n')
        names = [h['name'] for h in g['harnesses'] if tier == 'thorough' or not h.get('thorough_only')]
        cmd = ['cargo', 'kani', '-Z', 'function-contracts', '-Z', 'stubbing', '--output-format', 'terse', '-j', str(min(8, len(names)))]
        for n in names:
            cmd += ['--harness', n]
        cmd += list(g.get('args', []))
        env = dict(os.environ, CARGO_NET_OFFLINE='true')
        timeout = g.get('timeout', 900) * (3 if tier == 'thorough' else 1)
        try:
            p = subprocess.run(cmd, cwd=dst, capture_output=True, text=True, env=env, timeout=timeout)
        except subprocess.TimeoutExpired:
            return {'status': 'resource', 'detail': 'kani group %s timed out after %ds' % (group, timeout), 'engine': 'kani'}
        out = p.stdout + '\n' + p.stderr
        res = parse(out, g, names)
        # CBMC counterexample -> concrete values (Kani concrete playback), attached to the failure
        for fl in res.get('failures', []):
            hn = fl['key'].split(':')[1]
            try:
                pp = subprocess.run(['cargo', 'kani', '-Z', 'function-contracts', '-Z', 'stubbing', '-Z', 'concrete-playback',
                                     '--concrete-playback=print', '--harness', hn] + list(g.get('args', [])),
                                    cwd=dst, capture_output=True, text=True, env=env, timeout=600)
                blocks = re.findall(r'```\n(.*?)```', pp.stdout + pp.stderr, re.S)
                blocks = [b for b in blocks if 'Check for `cover`' not in b] or blocks
                if blocks:
                    fl['concrete'] = {'kani_group': group, 'harness': hn, 'playback_test': blocks[0][:4000]}
                    vals = re.findall(r'^\s*//\s*(\S.*)$', blocks[0], re.M)
                    fl['msg'] += ' | counterexample (concrete playback values): ' + ', '.join(vals)[:300]
            except Exception as e:  # playback is best effort
                fl['playback_error'] = str(e)
        res['checker_cmd'] = ' '.join(cmd) + '   (in a scratch copy of /repo with kani/%s appended)' % ','.join(a['harness'] for a in g['append'])
        res['wall_s'] = time.time() - t0
        res['functions'] = [{'anchor': fn, 'file': g['append'][0]['file'], 'kind': 'kani-harness-target', 'lines': [], 'sha256': key[:16]} for fn in g.get('targets', [])]
        res['trusted'] = list(g.get('trusted', []))
        if res['status'] == 'ok':
            os.makedirs(CACHE, exist_ok=True)
            with open(cpath, 'w') as f:
                json.dump(res, f)
        else:
            res['log_tail'] = out[-6000:]
        return res
    finally:
        shutil.rmtree(tmp, ignore_errors=True)


def parse(out, g, names):
    """Per-harness verdicts from Kani's terse output."""
    res = {'engine': 'kani', 'failures': [], 'samples': [], 'bounded_checks': []}
    verdict = {}
    cur = {}
    # (a) parallel output: "Thread N: Checking harness H..." then later "Thread N: <result block>"
    pos = 0
    pat = re.compile(r'(?:Thread (\d+): )?Checking harness ([\w:]+)|(?:Thread (\d+): )?\n?VERIFICATION RESULT:(.*?)VERIFICATION:- (SUCCESSFUL|FAILED)', re.S)
    for m in pat.finditer(out):
        if m.group(2):
            cur[m.group(1) or '0'] = m.group(2)
        else:
            t = m.group(3) or '0'
            full = cur.get(t)
            if not full:
                continue
            short = full.split('::')[-1]
            b = m.group(4)
            cov_sum = re.search(r'\*\* (\d+) of (\d+) cover properties satisfied', b)
            failed_props = re.findall(r'Failed Checks: (.*)', b)
            verdict[short] = dict(ok=m.group(5) == 'SUCCESSFUL', failed=m.group(5) == 'FAILED', failed_props=failed_props,
                                  cov=cov_sum, block=b[-3000:])
    complete = discharged = 0
    status = 'ok'
    for h in g['harnesses']:
        n = h['name']
        if n not in names:
            continue
        v = verdict.get(n)
        if v is None:
            status = 'tool_error'
            res['detail'] = 'no verdict for harness %s' % n
            continue
        is_bounded = bool(h.get('bounded'))
        if v['ok']:
            # vacuity guard: every cover property must be satisfied
            if v['cov'] and v['cov'].group(1) != v['cov'].group(2):
                status = 'vacuous' if status == 'ok' else status
                res['detail'] = 'harness %s: only %s of %s cover properties satisfied' % (n, v['cov'].group(1), v['cov'].group(2))
            if is_bounded:
                res['bounded_checks'].append({'name': 'kani:' + n, 'label': 'bounded (Kani harness with an unwinding/size bound)', 'bound': h['bounded'],
                                              'cases': 1, 'nontrivial': 1, 'passed': True, 'rule': h.get('what', '')})
            else:
                complete += 1
                discharged += 1
            res['samples'].append({'obligation': 'kani harness %s: %s — %s' % (n, h.get('what', ''), 'bounded: ' + h['bounded'] if is_bounded else 'complete (loop-free or width-bounded loops with unwinding assertions)')})
        elif v['failed']:
            only_unwind = v['failed_props'] and all('unwinding assertion' in fp for fp in v['failed_props'])
            if only_unwind:
                status = 'resource' if status == 'ok' else status
                res['detail'] = 'harness %s: unwinding bound too small' % n
            else:
                status = 'failed'
                if not is_bounded:
                    complete += 1
                res['failures'].append({'key': 'kani:%s:%s' % (n, ';'.join(v['failed_props'])[:200]), 'msg': 'CBMC property FAILURE in harness %s: %s' % (n, '; '.join(v['failed_props'])[:500]),
                                        'function': h.get('target', n), 'class': 'semantic', 'snippet': h.get('what', ''), 'raw': v['block']})
        else:
            status = 'tool_error' if status == 'ok' else status
            res['detail'] = 'harness %s: no verdict (compile error?)' % n
    res['status'] = status
    res['obligations'] = complete
    res['discharged'] = discharged
    if status == 'tool_error' and not res.get('detail'):
        res['detail'] = out[-800:]
    return res
