"""Bounded stand-ins: build /verif/bounded against /repo's working tree and run one sub-command.

These are *executed* contracts on the real builders (DESIGN.md 2.3).  They are labelled bounded in
the evidence (`bounded_checks`) and never counted as discharged obligations.
"""
import fcntl
import json
import os
import subprocess
import time

VERIF = os.path.dirname(os.path.dirname(os.path.abspath(__file__)))
CRATE = os.path.join(VERIF, 'bounded')
BIN = os.path.join(CRATE, 'target', 'release', 'acv-bounded')
BIN_PLAIN = os.path.join(CRATE, 'target', 'plain', 'acv-bounded')
_built = False
_built_plain = False


def ensure_built():
    """cargo build (incremental; rebuilds aho-corasick from /repo's working tree when it changed)."""
    global _built
    if _built:
        return None
    os.makedirs(os.path.join(VERIF, '.cache'), exist_ok=True)
    with open(os.path.join(VERIF, '.cache', 'bounded.lock'), 'w') as lk:
        fcntl.flock(lk, fcntl.LOCK_EX)
        env = dict(os.environ, CARGO_NET_OFFLINE='true')
        p = subprocess.run(['cargo', 'build', '--release', '--offline', '--quiet'], cwd=CRATE,
                           capture_output=True, text=True, env=env)
        fcntl.flock(lk, fcntl.LOCK_UN)
    if p.returncode != 0:
        return p.stderr[-4000:]
    _built = True
    return None


def ensure_built_plain():
    """the same crate under profile `plain` (debug assertions and overflow checks off)"""
    global _built_plain
    if _built_plain:
        return None
    os.makedirs(os.path.join(VERIF, '.cache'), exist_ok=True)
    with open(os.path.join(VERIF, '.cache', 'bounded.lock'), 'w') as lk:
        fcntl.flock(lk, fcntl.LOCK_EX)
        env = dict(os.environ, CARGO_NET_OFFLINE='true')
        p = subprocess.run(['cargo', 'build', '--profile', 'plain', '--offline', '--quiet'], cwd=CRATE,
                           capture_output=True, text=True, env=env)
        fcntl.flock(lk, fcntl.LOCK_UN)
    if p.returncode != 0:
        return p.stderr[-4000:]
    _built_plain = True
    return None


def run(name, tier, seed, opts, pid):
    t0 = time.time()
    plain = bool((opts or {}).get('_plain'))
    err = ensure_built_plain() if plain else ensure_built()
    if err:
        # /repo does not compile (or the harness does not): cannot decide, never an alarm
        return {'status': 'tool_error', 'detail': 'bounded crate failed to build: ' + err[-1500:]}
    args = [BIN_PLAIN if plain else BIN, name, '--tier', tier, '--seed', str(seed)]
    for k, v in (opts or {}).items():
        if k.startswith('_'):
            continue
        if tier == 'thorough' and k.startswith('thorough_'):
            k = k[len('thorough_'):]
        elif k.startswith('thorough_'):
            continue
        args += ['--' + k, str(v)]
    timeout = (opts or {}).get('_timeout', 3000 if tier == 'thorough' else 900)
    try:
        p = subprocess.run(args, capture_output=True, text=True, timeout=timeout)
    except subprocess.TimeoutExpired:
        return {'status': 'resource', 'detail': 'bounded check %s timed out after %ds' % (name, timeout)}
    line = [l for l in p.stdout.split('\n') if l.startswith('{')]
    if p.returncode != 0 or not line:
        return {'status': 'tool_error', 'detail': 'bounded %s exited %d: %s' % (name, p.returncode, (p.stderr or p.stdout)[-1500:])}
    d = json.loads(line[-1])
    failures = []
    for f in d['failures']:
        failures.append({'key': f['key'], 'msg': f['what'], 'function': 'bounded:' + d['check'],
                         'class': 'semantic', 'concrete': {'argv': f['argv']}, 'snippet': ''})
    cmd = ' '.join(args)
    res = {
        'status': 'failed' if failures else 'ok',
        'failures': failures,
        'bounded_checks': [{
            'name': d['check'] + (' [plain release profile]' if plain else ''), 'label': 'bounded (executed contract, not proved)', 'bound': d['bound'] + ('; library compiled without debug assertions and overflow checks' if plain else ''),
            'cases': d['cases'], 'nontrivial': d['nontrivial'], 'rule': d['rule'],
            'passed': not failures, 'extra': d.get('extra', {}), 'cmd': cmd,
        }],
        'samples': [{'bounded_case': s} for s in d.get('samples', [])],
        'checker_cmd': cmd,
        'wall_s': time.time() - t0,
    }
    if d['cases'] == 0 and not failures:
        res['status'] = 'vacuous'
        res['detail'] = 'bounded check %s evaluated zero cases' % name
    return res


def replay(concrete):
    err = ensure_built()
    if err:
        return True, 'bounded crate failed to build: ' + err
    if concrete.get('kani_group'):
        from . import kani
        r = kani.run(concrete['kani_group'], 'thorough')
        bad = [f for f in r.get('failures', []) if concrete['harness'] in f['key']]
        txt = 'kani harness %s in group %s: %s\nrecorded counterexample:\n%s' % (
            concrete['harness'], concrete['kani_group'], 'STILL FAILS: ' + bad[0]['msg'] if bad else 'now verifies', concrete.get('playback_test', ''))
        return (not bad), txt
    argv = concrete.get('argv') or []
    if not argv:
        return True, 'no replay arguments recorded'
    p = subprocess.run([BIN] + argv, capture_output=True, text=True, timeout=600)
    line = [l for l in p.stdout.split('\n') if l.startswith('{')]
    out = p.stderr[-2000:]
    if not line:
        return True, 'replay produced no result: ' + out
    d = json.loads(line[-1])
    for f in d['failures']:
        out += '\n' + f['what']
    return (not d['failures']), out
