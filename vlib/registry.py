"""Which components decide which property (DESIGN.md sections 4 and 5).

component = (engine, name, options)
  engine 'verus'   : name = unit template in contracts/units
  engine 'kani'    : name = harness group in kani/groups.json
  engine 'bounded' : name = sub-command of the /verif/bounded crate (bounded stand-in, labelled)
  engine 'shape'   : name = forwarder shape obligation set
"""

V = 'verus'
K = 'kani'
B = 'bounded'
S = 'shape'

HOOK_COMMITS = []
NOTES = ('Every check is ./check <ID>; the registry of components per property is vlib/registry.py. '
         'Verus obligations are generated from functions cut out of /repo/src on every run (vlib/extract.py); '
         'bounded stand-ins are labelled bounded in the evidence and never counted as obligations.')
ENGINES = [
    {'name': 'verus', 'path': 'vlib/verus.py', 'kind_free_text': 'Verus 0.2026.09.13 single-file mode on mechanically extracted real functions + hand-written contracts (contracts/)'},
    {'name': 'kani', 'path': 'vlib/kani.py', 'kind_free_text': 'Kani 0.68 / CBMC 6.11 harnesses appended to a scratch copy of the real crate (kani/)'},
    {'name': 'bounded', 'path': 'bounded/', 'kind_free_text': 'native executed contracts on the real builders, bounded stand-in (never counted as proved)'},
]
NOT_APPLICABLE = {}

def sem(kinds, aspects, families='small,abc', ci='0', cfgs='all', **kw):
    d = {'kinds': kinds, 'aspects': aspects, 'families': families, 'ci': ci, 'cfgs': cfgs}
    d.update(kw)
    return (B, 'sem', d)


COMMON_NOTE = ('Trusted/assumed: Verus 0.2026.09.13 + Z3; the extraction rewrite rules of vlib/extract.py (listed per run in the evidence); '
               'machine integers are Rust\'s (usize = 64 bit, slices shorter than usize::MAX); identifier newtypes abstracted as u32 newtypes; '
               'MatchError constructors opaque. The contracts AC/SC/PC of a *built* automaton are hypotheses of the proofs; they are executed on the real '
               'builders by the bounded stand-ins listed under coverage.bounded_checks (bounded over pattern lists, never counted as proved).')

PROPS = {
    'C01': dict(
        components=[(V, 'u1_search', {}), (V, 'u1_iter', {}),
                    sem('lf,ll', 'find,iter,spans')],
        level_text='Proof (Verus, unbounded in haystack/span): the real try_find_fwd/try_find_fwd_imp/get_match return the abstract run answer find_spec ("keep the last match, stop at dead state or span end") of any automaton satisfying the Automaton contract AC, and FindIter::next/handle_overlapping_empty_match/search implement the iterator step relation of the statement (restart at previous end, empty-match rule). Bounded stand-in: leftmost-first/longest definition vs the real builders on all small pattern lists.',
        level_note=COMMON_NOTE,
    ),
    'C02': dict(
        components=[(V, 'u1_search', {}), (V, 'u1_iter', {}),
                    sem('std', 'find,iter,spans')],
        level_text='Proof (Verus): try_find_fwd forces earliest for standard automata (dispatcher obligation) and the loop returns at the first match state (find_spec with earliest); iterator as in C01. Bounded stand-in: earliest-end/longest/first-supplied definition vs the real builders.',
        level_note=COMMON_NOTE,
    ),
    'C03': dict(
        components=[(V, 'u1_overlap', {}),
                    sem('std', 'ov,spans')],
        level_text='Proof (Verus): every call of the real try_find_overlapping_fwd(_imp) on an OverlappingState reports the head of ov_remaining(state) (abstraction function over id/at/next_match_index) and leaves its tail, or reports None forever once it is empty — for all call-history prefixes, haystacks, spans. Bounded stand-in: the listing equals all occurrences exactly once in (end, longer-first, id) order on the real builders.',
        level_note=COMMON_NOTE,
    ),
    'C09': dict(
        components=[(V, 'u1_search', {}), (V, 'u1_overlap', {}), (V, 'u1_iter', {}),
                    sem('std,lf,ll', 'find,iter,anch,ovanch,spans')],
        level_text='Proof (Verus): with an anchored input the search loop keeps only matches starting at input.start (scan with fstart = Some(start)), the overlapping stepper reports exactly the kept matches (state_matches with keep), FindIter is generic in anchoring. Bounded stand-in: anchored results equal the definition restricted to occurrences starting at the span start, for NFAs and DFAs with Anchored/Both start kinds.',
        level_note=COMMON_NOTE,
    ),
}
LEVEL = {pid: 'proof' for pid in PROPS}
