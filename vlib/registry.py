"""Which components decide which property (DESIGN.md sections 4 and 5).

component = (engine, name, options)
  engine 'verus'   : name = unit template in contracts/units
  engine 'kani'    : name = harness group in kani/groups.json
  engine 'bounded' : name = sub-command of the /verif/bounded crate (bounded stand-in, labelled)
  engine 'shape'   : name = forwarder shape obligation set
"""

V = 'verus'
K = 'kani'
B = 'bounded'
S = 'shape'

HOOK_COMMITS = []
NOTES = ('Every check is ./check <ID>; the registry of components per property is vlib/registry.py. '
         'Verus obligations are generated from functions cut out of /repo/src on every run (vlib/extract.py); '
         'bounded stand-ins are labelled bounded in the evidence and never counted as obligations.')
ENGINES = [
    {'name': 'verus', 'path': 'vlib/verus.py', 'kind_free_text': 'Verus 0.2026.09.13 single-file mode on mechanically extracted real functions + hand-written contracts (contracts/)'},
    {'name': 'kani', 'path': 'vlib/kani.py', 'kind_free_text': 'Kani 0.68 / CBMC 6.11 harnesses appended to a scratch copy of the real crate (kani/)'},
    {'name': 'bounded', 'path': 'bounded/', 'kind_free_text': 'native executed contracts on the real builders, bounded stand-in (never counted as proved)'},
]
NOT_APPLICABLE = {}

PROPS = {
    'C01': dict(
        components=[(V, 'u1_search', {})],
        level_text='Verus discharges, for all haystacks/spans/anchoring/earliest/prefilter results, that the real try_find_fwd(_imp) returns the abstract run answer find_spec of any automaton satisfying the Automaton contract AC.',
        level_note='Assumes AC/SC/PC of the built automaton (executed by bounded stand-ins), Verus+Z3, the extraction rewrite rules, usize = 64 bit.',
    ),
}

LEVEL = {pid: 'proof' for pid in PROPS}
