"""Which components decide which property (DESIGN.md sections 4 and 5).

component = (engine, name, options)
  engine 'verus'   : name = unit template in contracts/units
  engine 'kani'    : name = harness group in kani/groups.json
  engine 'bounded' : name = sub-command of the /verif/bounded crate (bounded stand-in, labelled)
  engine 'shape'   : name = forwarder shape obligation set
"""

V = 'verus'
K = 'kani'
B = 'bounded'
S = 'shape'

HOOK_COMMITS = ['e7360bf', 'a5a66f0', '40f0091']
NOTES = ('Every check is ./check <ID>; the registry of components per property is vlib/registry.py. '
         'Verus obligations are generated from functions cut out of /repo/src on every run (vlib/extract.py); '
         'bounded stand-ins are labelled bounded in the evidence and never counted as obligations.')
ENGINES = [
    {'name': 'verus', 'path': 'vlib/verus.py', 'kind_free_text': 'Verus 0.2026.09.13 single-file mode on mechanically extracted real functions + hand-written contracts (contracts/)'},
    {'name': 'kani', 'path': 'vlib/kani.py', 'kind_free_text': 'Kani 0.68 / CBMC 6.11 harnesses appended to a scratch copy of the real crate (kani/)'},
    {'name': 'bounded', 'path': 'bounded/', 'kind_free_text': 'native executed contracts on the real builders, bounded stand-in (never counted as proved)'},
]
NOT_APPLICABLE = {}

def sem(kinds, aspects, families='small,abc', ci='0', cfgs='all', **kw):
    d = {'kinds': kinds, 'aspects': aspects, 'families': families, 'ci': ci, 'cfgs': cfgs}
    d.update(kw)
    return (B, 'sem', d)


LEMMA_NOTE = (' Lemma unit l1_semantics (pure Verus, no code): L-lm (C01), L-std (C02), L-ov (C03), L-stream (C07) derive the property statements '
              'from the abstract-run postconditions of the real functions plus the semantic contract SC of the built automaton (SC is a hypothesis on the builders, executed by the bounded stand-ins; L-stream needs no SC at all).')
COMMON_NOTE = ('Trusted/assumed: Verus 0.2026.09.13 + Z3; the extraction rewrite rules of vlib/extract.py (listed per run in the evidence); '
               'machine integers are Rust\'s (usize = 64 bit, slices shorter than usize::MAX); identifier newtypes abstracted as u32 newtypes; '
               'MatchError constructors opaque. The contracts AC/SC/PC of a *built* automaton are hypotheses of the proofs; they are executed on the real '
               'builders by the bounded stand-ins listed under coverage.bounded_checks (bounded over pattern lists, never counted as proved).')

def b(name, **kw):
    return (B, name, kw)


U1 = [(V, 'u1_search', {}), (V, 'u1_overlap', {}), (V, 'u1_iter', {})]
U2 = [(V, 'u2_buffer', {}), (V, 'u2_stream', {}), ('kani', 'buffer_free', {}), (V, 'u1_forward', {})]
U2R = U2 + [(V, 'u2_replace', {})]

PROPS = {
    'C01': dict(
        components=[(V, 'l1_semantics', {})] + [(V, 'u1_search', {}), (V, 'u1_iter', {}), (V, 'u4_nnfa_build', {}),
                    sem('lf,ll', 'find,iter,spans'), sem('lf,ll', 'find,iter', families='deep,bytes,many'),
                    ('kani', 'pattern_raw', {}), ('kani', 'search_leaf', {}), b('pc', aspects='find,iter', mode='api'), b('packed'), sem('lf,ll', 'find,iter', families='small', _plain='1')],
        level_text='Proof (Verus, unbounded in haystack/span): the real try_find_fwd/try_find_fwd_imp/get_match return the abstract run answer find_spec ("keep the last match, stop at dead state or span end") of any automaton satisfying the Automaton contract AC, and FindIter::next/handle_overlapping_empty_match/search implement the iterator step relation of the statement (restart at previous end, empty-match rule). Kani (bounded by length): the confirmation compare of the packed prefilter (is_equal_raw/is_prefix) looks at every byte. Bounded stand-in: leftmost-first/longest definition vs the real builders on all small pattern lists, and with every prefilter variant active (long patterns, near-miss haystacks). Builder side (Verus, u4_nnfa_build): the mutators with which the noncontiguous compiler writes the automaton — add_transition, add_match, copy_matches, alloc_state/transition/match, next_link — keep the builder-time representation invariant bwf (sorted acyclic sparse chains, links in bounds, chains of different states disjoint, forward match links) and change the abstract view in exactly one point: the added edge is the edge that is found and no other byte of any state changes its answer; a match is appended last and a copied list follows the own list in source order, once each; overflow of the id space is an Err. The compiler passes that call them are out of reach (bounded only).',
        level_note=LEMMA_NOTE + COMMON_NOTE,
    ),
    'C02': dict(
        components=[(V, 'l1_semantics', {}), ('kani', 'search_leaf', {})] + [(V, 'u1_search', {}), (V, 'u1_iter', {}), (V, 'u4_nnfa_build', {}),
                    sem('std', 'find,iter,spans'), sem('std', 'find,iter', families='deep,bytes'), b('pc', aspects='find,iter', mode='api'), sem('std', 'find,iter', families='small', _plain='1')],
        level_text='Proof (Verus): try_find_fwd forces earliest for standard automata (dispatcher obligation) and the loop returns at the first match state (find_spec with earliest); iterator as in C01. Bounded stand-in: earliest-end/longest/first-supplied definition vs the real builders. Builder side (Verus, u4_nnfa_build): the mutators with which the noncontiguous compiler writes the automaton — add_transition, add_match, copy_matches, alloc_state/transition/match, next_link — keep the builder-time representation invariant bwf (sorted acyclic sparse chains, links in bounds, chains of different states disjoint, forward match links) and change the abstract view in exactly one point: the added edge is the edge that is found and no other byte of any state changes its answer; a match is appended last and a copied list follows the own list in source order, once each; overflow of the id space is an Err. The compiler passes that call them are out of reach (bounded only).',
        level_note=LEMMA_NOTE + COMMON_NOTE,
    ),
    'C03': dict(
        components=[(V, 'l1_semantics', {})] + [(V, 'u1_overlap', {}), (V, 'u4_nnfa_build', {}),
                    sem('std', 'ov,spans'), sem('std', 'ov', families='deep,bytes'), b('pc', aspects='ov', mode='api'), b('nested'), sem('std', 'ov', families='small', _plain='1'), sem('std', 'ov', families='ci', ci='1', _plain='1'), sem('std', 'ov', families='ci', ci='1')],
        level_text='Proof (Verus): every call of the real try_find_overlapping_fwd(_imp) on an OverlappingState reports the head of ov_remaining(state) (abstraction function over id/at/next_match_index) and leaves its tail, or reports None forever once it is empty — for all call-history prefixes, haystacks, spans. Bounded stand-in: the listing equals all occurrences exactly once in (end, longer-first, id) order on the real builders. Builder side (Verus, u4_nnfa_build): the mutators with which the noncontiguous compiler writes the automaton — add_transition, add_match, copy_matches, alloc_state/transition/match, next_link — keep the builder-time representation invariant bwf (sorted acyclic sparse chains, links in bounds, chains of different states disjoint, forward match links) and change the abstract view in exactly one point: the added edge is the edge that is found and no other byte of any state changes its answer; a match is appended last and a copied list follows the own list in source order, once each; overflow of the id space is an Err. The compiler passes that call them are out of reach (bounded only).',
        level_note=LEMMA_NOTE + COMMON_NOTE,
    ),
    'C04': dict(
        components=[('kani', 'alphabet_leaf', {}), (V, 'l2_bisim', {}), (V, 'u1_forward', {})] + U1 + [(V, 'u3_dfa', {}), (V, 'u3_nnfa', {}), (V, 'u3_cnfa', {}), (V, 'u4_nnfa_build', {}), (V, 'u6_build', {}), ('kani', 'nnfa_leaf', {}), b('bisim', families='small,abc,ci,wide'), b('bigkinds'),
                         sem('std,lf,ll', 'find,iter,ov,anch,earliest', families='small,abc', cfgs='all', rel='kind', thorough_aspects='find,iter,ov,anch,earliest,spans')],
        level_text='Proof (Verus): every search API is a function of the abstract automaton only (find_spec / ov_remaining over AC), so two representations with equal abstract behaviour give equal results for every haystack; the accessors of each representation are proved to compute the abstract transition function of that representation (u3_dfa, u3_nnfa: a densified state answers exactly like its sparse chain; u3_cnfa: the dense, one-transition and sparse encodings all answer c_lookup). Bounded stand-in (exhaustive over haystacks per pattern list): product BFS bisimulation of the reference noncontiguous NFA with every contiguous/DFA/dense-depth/byte-class configuration over all 256 bytes from both start states; top-level vs low-level use compared through the API. Builder side (Verus, u4_nnfa_build): the mutators with which the noncontiguous compiler writes the automaton — add_transition, add_match, copy_matches, alloc_state/transition/match, next_link — keep the builder-time representation invariant bwf (sorted acyclic sparse chains, links in bounds, chains of different states disjoint, forward match links) and change the abstract view in exactly one point: the added edge is the edge that is found and no other byte of any state changes its answer; a match is appended last and a copied list follows the own list in source order, once each; overflow of the id space is an Err. The compiler passes that call them are out of reach (bounded only). Configuration plumbing (Verus, u6_build): every setter of AhoCorasickBuilder and of the three automaton builders it owns (real fields) is proved to set exactly its option in every builder that reads it, and to keep builder_inv (the three builders agree on match kind / case folding / prefilter, the DFA builder has the start kind the front end gates with) — in every order of calls; AhoCorasickBuilder::build / build_auto: an explicitly requested kind is the kind of the automaton inside or the build fails, the automatic rule (DFA iff start kind is not Both and at most 100 patterns and the DFA builds, else contiguous, else noncontiguous), reported kind = kind of the wrapped automaton, start kind as given and equal to the one a DFA inside supports; what the three build routines construct is an assumed contract.',
        level_note=COMMON_NOTE + ' The lifting "bisimilar automata => equal scan / find_spec / ov_list" (L-bisim) is proved in unit l2_bisim; the bisimulation itself is established per pattern list by the bounded product BFS.',
    ),
    'C05': dict(
        components=[('kani', 'prefilter_leaf', {}), ('kani', 'prefilter_builder', {}), ('kani', 'prefilter_findin', {})] + [(V, 'u1_search', {}), (V, 'u1_overlap', {}),
                    b('pc'), b('packed')],
        level_text='Proof (Verus): under the prefilter coherence contract PC both search loops return exactly what the prefilter-free abstract run returns (prefilter consulted only before the loop and in the start state with no pending match; a candidate is used only if it lies ahead; None ends the search). Bounded stand-in: PC itself (None / PossibleStartOfMatch / Match clauses) executed for every prefilter variant the real builder selects, every span of short haystacks and long haystacks, plus API transparency.',
        level_note=COMMON_NOTE,
    ),
    'C06': dict(
        components=[('kani', 'pattern_raw', {}), ('kani', 'teddy_searcher', {}), (V, 'u5_packed_api', {}), (V, 'u5_rabinkarp', {}), b('packed')],
        level_text='Proof (Verus, u5_packed_api): the real packed::Searcher::find_in/find_in_slow/FindIter::next dispatch — the Teddy minimum-length precondition holds on its branch, shorter spans go to Rabin-Karp, both engines get exactly haystack[..span.end] and span.start, results lie in the span, the iterator restarts at the previous end. Proof (Verus, u5_rabinkarp): the real Rabin-Karp engine — hash and update_hash in wrapping arithmetic equal the polynomial hash modulo 2^64 and the rolling update yields the hash of the next window (lemma_roll), so find_at misses no occurrence: it returns None only if no pattern occurs at any position >= at, and otherwise the first position with an occurrence and, there, the verifying bucket entry of highest priority, with the match span inside the haystack; under the builder hypothesis rk_wf (hash_2pow = 2^(hash_len-1) mod 2^64, every pattern filed under the hash of its first hash_len bytes, bucket entries in priority order) and the contract of Pattern::is_prefix. Kani (bounded by length): raw-pointer pattern comparison equals slice comparison inside exactly-sized objects; teddy::Searcher::find pointer<->offset conversion and its minimum-length assert. Bounded stand-in for the engines themselves (Teddy windows/buckets/verification, Rabin-Karp): every packed variant available on this CPU (Rabin-Karp, slim Teddy 128/256, fat Teddy, default) on the real SIMD code vs the leftmost definition, haystack lengths 0..=100, every span of short haystacks.',
        level_note='Teddy window arithmetic and bucket assignment, and the Rabin-Karp constructor (rk_wf), are covered by the bounded executed contract only (labelled bounded). SIMD intrinsics are outside every installed verifier.',
    ),
    'C07': dict(
        components=[(V, 'l1_semantics', {})] + U2 + [(V, 'u1_iter', {}), b('stream', aspects='find'), b('ac', families='small', lens='1'), b('stream', aspects='find', _plain='1')],
        level_text='Proof (Verus, fully within the family): for every reader obeying the std::io::Read contract — i.e. for all read sizes, all positions where a read ends, all buffer capacities > min — the real StreamChunkIter::next/StreamFindIter::next yield exactly st_rest(stream), the run of the abstract automaton over the concatenated stream with absolute offsets (Buffer::new/fill/roll proved with content postconditions). The in-memory side (FindIter over find_spec) is proved in u1_iter. Bounded companion: real readers with explicit schedules and capacities 1..8 bytes above the minimum (hook H2).',
        level_note=LEMMA_NOTE + COMMON_NOTE + ' Read contract = std documentation (assumption about the caller\'s reader). Buffer::free_buffer (one line, not expressible in vstd) is an external_body stub in the Verus units whose contract is checked on the real function by Kani (group buffer_free: exactly buf[end..] for every capacity up to 300000). Streams shorter than 2^64 bytes.',
    ),
    'C08': dict(
        components=U2R + [b('stream', aspects='replace')],
        level_text='Proof (Verus): the chunk sequence of StreamChunkIter::next partitions the stream: each NonMatch chunk is the next unreported bytes and never reaches into the next match, each Match chunk is exactly the next match of the abstract run with its bytes stream[m.start..m.end]; only bytes older than the retained tail are flushed before a roll and buffer_reported_pos is re-based by the rolled distance. Bounded companion: stream_replace_all / _with vs the splice definition on real readers/writers.',
        level_note=COMMON_NOTE + ' Driver try_stream_replace_all_with (u2_replace): the closure is handed exactly (match with absolute offsets, stream[m.start..m.end]) — a precondition obligation at its call site —, errors from the chunk iterator, the writer and the closure are returned at once, the loop terminates; byte-for-byte equality of the written output with the splice definition is decided by the bounded companion only (the closure and writer are opaque). Read/Write contracts = std documentation.',
    ),
    'C09': dict(
        components=[(V, 'u1_search', {}), (V, 'u1_overlap', {}), (V, 'u1_iter', {}),
                    sem('std,lf,ll', 'find,iter,anch,ovanch,spans'), sem('std,lf,ll', 'find,iter,anch,ovanch', families='wide,deep', cfgs='low'), sem('std,lf,ll', 'find,iter,anch', families='wide', cfgs='top'), sem('std,lf,ll', 'find,iter,anch,ovanch', families='ci', ci='1', cfgs='low'), sem('std,lf,ll', 'anch,ovanch', families='small', _plain='1')],
        level_text='Proof (Verus): with an anchored input the search loop keeps only matches starting at input.start (scan with fstart = Some(start)), the overlapping stepper reports exactly the kept matches (state_matches with keep), FindIter is generic in anchoring. Bounded stand-in: anchored results equal the definition restricted to occurrences starting at the span start, for NFAs and DFAs with Anchored/Both start kinds.',
        level_note=COMMON_NOTE,
    ),
    'C10': dict(
        components=[('kani', 'search_leaf', {}), ('kani', 'prefilter_findin', {}), ('kani', 'teddy_searcher', {}), (V, 'u5_packed_api', {})] + U1 + [sem('std,lf,ll', 'find,iter,ov,anch,spans', families='small', cfgs='low', rel='span', maxhay='5', thorough_maxhay='7'), b('pc', aspects='find,iter', mode='span'), b('packed', mode='span')],
        level_text='Proof (Verus): every postcondition of the search units is stated for an arbitrary valid span; haystack is indexed only at positions in [start,end) (bounds obligations), every reported match lies in the span (lemma_scan_bounds), is_done yields None, Input::set_span/set_start preconditions are exactly the non-panicking domain. Bounded stand-in: all spans incl. start = end+1 on the real builders and prefilters.',
        level_note=COMMON_NOTE,
    ),
    'C11': dict(
        components=[('kani', 'prefilter_leaf', {}), ('kani', 'prefilter_builder', {})] + [sem('std,lf,ll', 'find,iter,ov,anch', families='ci', ci='1'), sem('std,lf,ll', 'find,iter,ov', families='deep,wide', ci='1', cfgs='low'), sem('std,lf,ll', 'find,iter,ov', families='cimix', ci='1', cfgs='all'), b('pc'), b('bisim', families='ci'), sem('std,lf,ll', 'find,ov', families='ci', ci='1', _plain='1')],
        level_text='Proof (Kani, complete over u8): opposite_ascii_case flips exactly A-Z/a-z, is an involution and fixes every other byte (boundary bytes and >= 0x80 included); RareByteOffsets::set keeps the per-byte maximum; StartBytesBuilder::add puts exactly the first byte and, under ci, its other-case twin into the set (complete); RareBytesBuilder::add records for every byte of a pattern and its twin an offset >= its position and puts some byte of every pattern into the rare set together with its twin (bounded: two patterns of <= 2 and <= 3 symbolic bytes). Bounded stand-in: definition with ASCII folding vs the real builders (both-case trie edges, byte classes, exact match-list multiplicity, ids as supplied) over letters of both cases, boundary bytes and non-ASCII bytes; prefilter contract with ci on; bisimulation of representations.',
        level_note=COMMON_NOTE + ' The trie construction with both-case edges is a builder (bounded stand-in only).',
    ),
    'C12': dict(
        components=[(V, 'u1_iter', {}), (V, 'u7_replace', {}), (V, 'u7_replace_str', {}), b('replace')],
        level_text='Proof (Verus): the real try_replace_all_with_bytes never slices out of bounds or panics, terminates, hands the closure exactly (match of the iterator, haystack[m.start..m.end]) (closure precondition obligation) and is rejected only by configuration; the iterator it is driven by yields increasing in-span matches (u1_iter). Bounded stand-in: replace_all / replace_all_bytes / closure variants with early stop vs splice definition on multi-byte UTF-8 haystacks and byte patterns that split code points.',
        level_note=COMMON_NOTE + ' Output equality with the splice definition is decided by the bounded stand-in only (the closure is opaque to the proof). The &str driver try_replace_all_with is proved (u7_replace_str) over trusted stubs for the str / String operations (is_char_boundary, slicing at boundaries, push_str): it never slices off a character boundary, skips exactly the matches with an end inside a character, and hands the closure the match text.',
    ),
    'C13': dict(
        components=[(V, 'u6_gates', {}), (V, 'u6_build', {})] + [('kani', 'gates_leaf', {})] + [(V, 'u1_search', {}), (V, 'u1_overlap', {}), (V, 'u1_iter', {}), b('cfgprod')],
        level_text='Proof (Verus): try_find_fwd / try_find_overlapping_fwd / FindIter::new fail exactly when start_state has no start state for the requested anchoring (and, for overlapping, when the match kind is not standard), independent of the haystack; a constructed FindIter never hits its expect. Exhaustive stand-in: the full finite product match kind x start kind x anchoring x engine kind x 17 APIs x empty-pattern on the real code. Configuration plumbing (Verus, u6_build): every setter of AhoCorasickBuilder and of the three automaton builders it owns (real fields) is proved to set exactly its option in every builder that reads it, and to keep builder_inv (the three builders agree on match kind / case folding / prefilter, the DFA builder has the start kind the front end gates with) — in every order of calls; AhoCorasickBuilder::build / build_auto: an explicitly requested kind is the kind of the automaton inside or the build fails, the automatic rule (DFA iff start kind is not Both and at most 100 patterns and the DFA builds, else contiguous, else noncontiguous), reported kind = kind of the wrapped automaton, start kind as given and equal to the one a DFA inside supports; what the three build routines construct is an assumed contract.',
        level_note=COMMON_NOTE,
    ),
    'C14': dict(
        components=[(V, 'u6_gates', {})] + [(V, 'u1_search', {}), sem('std,lf,ll', 'earliest,ismatch,anch,spans', families='small'), b('pc', aspects='earliest,ismatch', mode='api')],
        level_text='Proof (Verus): the earliest flag is forwarded to the loop, which returns at the first match state (find_post: with a prefilter the normal answer is also allowed). Bounded stand-in: earliest result is a genuine occurrence ending no later than the normal answer and is Some iff the normal one is; is_match iff an occurrence exists.',
        level_note=COMMON_NOTE,
    ),
    'C15': dict(
        components=[('kani', 'search_leaf', {}), ('kani', 'pattern_raw', {}), ('kani', 'teddy_searcher', {}), (V, 'u5_packed_api', {}), (V, 'u5_rabinkarp', {}), (V, 'u3_dfa', {}), (V, 'u3_nnfa', {}), (V, 'u3_cnfa', {})] + U1 + U2 + [(V, 'u7_replace', {}), (V, 'u7_replace_str', {}), b('packed', mode='safety'), b('pc', mode='safety'), b('replace', mode='safety'), b('guard')],
        level_text='Proof (Verus): every index, slice, subtraction, addition, unwrap/expect/assert!/debug_assert! in the extracted search functions is a discharged obligation; reported matches satisfy start <= end <= len and pid < pattern count (match_in lemmas). Bounded stand-in for the raw-pointer SIMD code: all packed variants on exactly-sized allocations for lengths 0..=100.',
        level_note=COMMON_NOTE + ' Raw-pointer code (Teddy, is_prefix_raw) is covered by bounded runs only until the Kani unit lands.',
    ),
    'C16': dict(
        components=[(V, 'u1_search', {}), (V, 'u1_recipe', {}), (V, 'u3_dfa', {}), (V, 'u3_nnfa', {}), (V, 'u3_cnfa', {}), (V, 'u1_forward', {}), ('kani', 'nnfa_leaf', {}), b('ac', families='small,abc,ci,many,wide'), b('repr'), b('repr-nnfa'), b('repr-cnfa'), sem('std,lf,ll', 'recipe', families='small,abc,deep', cfgs='low'), b('pc', aspects='recipe', mode='api'), b('nested'), b('ac', families='small', _plain='1')],
        level_text='The Automaton contract AC is the hypothesis the proved search loops consume (Verus). The search routine printed in the trait documentation is cut out of the doc comment and proved to return the same find_spec as the built-in search (u1_recipe). For dfa::DFA the accessors themselves are proved (u3_dfa) under the representation invariant dfa_wf: next_state never indexes out of bounds and returns a state id, the dead state is absorbing, is_dead/is_match/is_special/is_start are the id comparisons of the layout, dead and match imply special, match_len/match_pattern index a non-empty list of valid pattern ids, start_state fails exactly for the mode whose start id is the dead state; dfa_wf is executed on the whole table of every real DFA of the bounded space (repr, hook H1). The same for the two NFAs: nfa::contiguous (u3_cnfa: next_state over the packed u32 encoding with its dense / one-transition / sparse states, failure loop, match_len/match_pattern decoders, all index arithmetic and bit operations) and nfa::noncontiguous (u3_nnfa: next_state with its failure loop, follow_transition with the dense row; the three iterator-closure helpers follow_transition_sparse/match_len/match_pattern are outside the Verus subset and are checked against the same definitions by Kani group nnfa_leaf, bounded by table size 5), under cnfa_wf / nnfa_wf, executed on every state x byte of every real NFA of the bounded space (repr-cnfa, repr-nnfa). Bounded stand-in, exhaustive per automaton: every clause of AC evaluated on all reachable states x 256 bytes x both anchoring arguments of every automaton of the bounded pattern space.',
        level_note=COMMON_NOTE,
    ),
    'C17': dict(
        components=[(S, 'frame_scan', {}), ('kani', 'pattern_raw', {}), b('purity'), b('guard')],
        level='other',
        explanation='Sequential half: every function under contract has a postcondition result = spec(arguments), a history-free function. The schedule quantifier is not decided by this family (Kani has no threads, Verus cannot model std::thread); a differential run (orders, clones, 8 threads) is the only dynamic evidence.',
        level_text='Frame obligation (syntactic, whole crate): no construct through which &self code could mutate shared state exists in library code outside the guarded hooks (interior mutability, statics, thread-locals, const->mut casts, pointer writes) — so, by Rust\'s aliasing rules, every search is a function of the searcher and its input. The schedule quantifier itself is not decided by this family; a differential run (orders, clones, in-place modified buffers, relocated haystacks, 8 threads) is the only dynamic evidence; the raw-pointer compare of the packed searchers is checked by Kani to be a function of the bytes at every offset of the window in its object.',
        level_note='Data-race freedom of a Sync value shared by & is Rust\'s soundness theorem (assumed).',
    ),
    'C18': dict(
        components=U2R + [b('stream', faults='1')],
        level_text='Proof (Verus): read results are nondeterministic in the proof, so every fault position is covered: on Err from fill, next returns Some(Err) with the abstract state (reported offset, remaining matches) unchanged and the representation invariant intact, Buffer::fill keeps already-buffered bytes; None is returned only after the reader reported end of stream into a non-empty buffer and everything was handed over; no panic/overflow/out-of-bounds. Bounded companion: a read fault at every byte position and a write fault after every output length on real readers/writers.',
        level_note=COMMON_NOTE + ' Writer-fault half: try_stream_replace_all_with propagates every error with `?` and never panics (u2_replace); that the bytes written before a writer fault are a prefix of the fault-free output is decided by the bounded companion only.',
    ),
    'C19': dict(
        components=[(V, 'u1_search', {}), (V, 'u1_overlap', {}), (V, 'u2_stream', {'only_tagged': '1'}), (V, 'u3_nnfa', {}), (V, 'u3_cnfa', {}), (V, 'u3_dfa', {}), (V, 'u7_replace', {}), (V, 'u7_replace_str', {}), b('faildepth'), b('repr-nnfa'), b('repr-cnfa'), b('scaling')],
        level_text='Proof (Verus): both search loops perform one next_state call per iteration and every iteration strictly increases the position (decreases clauses), so at most one transition per byte. The real next_state of both NFAs is proved to terminate with the potential argument behind the amortised bound: failure steps + rank(result) <= rank(state) + 1 for any rank function that strictly decreases along the failure link of every state with an undefined transition and grows by at most one along a transition (tagged [C19] obligations in u3_nnfa / u3_cnfa; such a rank — breadth-first depth — is exhibited on every real NFA of the bounded space by repr-nnfa / repr-cnfa); next_state of the DFA is a single table lookup without a loop (u3_dfa). Bounded stand-in through hooks: depth(fail(s)) < depth(s) for every state of the noncontiguous NFA; counters: transitions <= span length, failure traversals <= transitions (NFAs), zero (DFA). The stream iterator (u2_stream, tagged [C19] obligation, the only obligations of that unit counted here): a refill of the roll buffer leaves the position in the stream and the automaton state untouched, so no stream byte is scanned twice.',
        level_note=COMMON_NOTE,
    ),
    'C20': dict(
        components=[('kani', 'primitives_leaf', {}), (V, 'u1_forward', {}), (V, 'u3_dfa', {}), (V, 'u3_nnfa', {}), (V, 'u3_cnfa', {}), (V, 'u4_nnfa_build', {}), (V, 'u6_build', {})] + [b('meta')],
        level_text='Proof (Kani, complete over usize): SmallIndex/StateID/PatternID::new fail exactly above their limit and round-trip the value (size limits surface as errors, not panics). Proof (Verus): the metadata accessors patterns_len / pattern_len / min_pattern_len / max_pattern_len / match_kind of the three automaton types return the stored fields (u3_dfa, u3_nnfa, u3_cnfa) and the two forwarding impls (&A, the Arc<dyn> of the front end) forward each accessor to the same-named accessor (u1_forward). Bounded stand-in: shape-diverse pattern collections x option combinations: no panic, requested kind returned, automatic kind rule, metadata mirrors input, ids are input positions. Builder side (Verus, u4_nnfa_build): the mutators with which the noncontiguous compiler writes the automaton — add_transition, add_match, copy_matches, alloc_state/transition/match, next_link — keep the builder-time representation invariant bwf (sorted acyclic sparse chains, links in bounds, chains of different states disjoint, forward match links) and change the abstract view in exactly one point: the added edge is the edge that is found and no other byte of any state changes its answer; a match is appended last and a copied list follows the own list in source order, once each; overflow of the id space is an Err. The compiler passes that call them are out of reach (bounded only). Configuration plumbing (Verus, u6_build): every setter of AhoCorasickBuilder and of the three automaton builders it owns (real fields) is proved to set exactly its option in every builder that reads it, and to keep builder_inv (the three builders agree on match kind / case folding / prefilter, the DFA builder has the start kind the front end gates with) — in every order of calls; AhoCorasickBuilder::build / build_auto: an explicitly requested kind is the kind of the automaton inside or the build fails, the automatic rule (DFA iff start kind is not Both and at most 100 patterns and the DFA builds, else contiguous, else noncontiguous), reported kind = kind of the wrapped automaton, start kind as given and equal to the one a DFA inside supports; what the three build routines construct is an assumed contract.',
        level_note=COMMON_NOTE + ' The builders themselves are beyond Verus/Kani here (bounded stand-in only).',
    ),
}

LEVEL = {pid: 'proof' for pid in PROPS}
