"""Syntactic frame obligations (engine 'shape').

`frame_scan` (C17): the frame contract "a search assigns nothing outside caller-owned values" is
discharged for the whole crate by the absence of every construct through which `&self` code could
mutate shared state: interior mutability, statics, thread-locals — outside the guarded
verification hooks and test modules.  rustc's borrow rules do the rest (assumption).
"""
import os
import re
import time

from . import rustlex

REPO = os.environ.get('VERIF_REPO', '/repo')

TOKENS = [r'\bstatic\s+mut\b', r'\bthread_local!', r'\bUnsafeCell\b', r'\bCell\s*<', r'\bRefCell\b', r'\bAtomic[A-Z]\w*',
          r'\bMutex\b', r'\bRwLock\b', r'\bOnceCell\b', r'\bOnceLock\b', r'\bOnce\b', r'\blazy_static!', r'\bLazy(Lock|Cell)?\s*<',
          r'\bstatic\s+[A-Z_]+\s*:\s*(?!&|\[|u8|usize|u16|u32|u64|bool)', r'\bas\s+\*mut\b', r'\bwrite_volatile\b|\bptr::write\b|\.write\(\s*[a-z]',
          # a shared reference turned into a writable pointer, or raw-pointer writes
          r'\bcast_mut\b', r'\bas_mut_ptr\b', r'\bfrom_raw_parts_mut\b', r'\baddr_of_mut!', r'\bNonNull\b', r'\bwrite_unaligned\b|\bwrite_bytes\b',
          r'\bcopy_nonoverlapping\b|\bptr::copy\b|\bptr::swap\b|\bptr::replace\b', r'\*mut\b', r'\btransmute\b']

# the two sites of the pinned tree that mention these tokens without writing through them: the
# by-value lane extraction of a vector, and the `Pointer` helper impl for `*mut T` (distance only)
ALLOW = [('src/packed/vector.rs', 'let lanes: [u64; 2] = core::mem::transmute(self);'),
         ('src/packed/ext.rs', 'impl<T> Pointer for *mut T {'),
         ('src/packed/ext.rs', 'unsafe fn distance(self, origin: *mut T) -> usize {')]


def run(name, tier, opts=None):
    t0 = time.time()
    if name != 'frame_scan':
        return {'status': 'tool_error', 'detail': 'unknown shape obligation ' + name}
    hits, nfiles, nlines = [], 0, 0
    for root, _d, files in os.walk(os.path.join(REPO, 'src')):
        for fn in sorted(files):
            if not fn.endswith('.rs'):
                continue
            p = os.path.join(root, fn)
            rel = os.path.relpath(p, REPO)
            if rel in ('src/verif.rs', 'src/tests.rs', 'src/packed/tests.rs'):
                continue   # the guarded hook module; the test tables
            text, _ = rustlex.strip_comments(open(p, encoding='utf-8').read())
            # drop #[cfg(test)] modules and hook statements
            text = re.sub(r'#\[cfg\(aho_corasick_verif\)\]\s*(impl[^{]*\{(?:[^{}]|\{(?:[^{}]|\{[^{}]*\})*\})*\}|[^;{}]*;)', lambda m: re.sub(r'[^\n]', ' ', m.group(0)), text)
            cut = text.find('#[cfg(test)]')
            while cut >= 0:
                # blank from the attribute to the end of the following braced item
                i = text.find('{', cut)
                if i < 0:
                    break
                try:
                    j = rustlex.match_close(text, i)
                except ValueError:
                    break
                text = text[:cut] + re.sub(r'[^\n]', ' ', text[cut:j + 1]) + text[j + 1:]
                cut = text.find('#[cfg(test)]', j)
            nfiles += 1
            for ln, line in enumerate(text.split('\n'), 1):
                nlines += 1
                for tk in TOKENS:
                    m = re.search(tk, line)
                    if m and (rel, line.strip()) in ALLOW:
                        continue
                    if m:
                        hits.append({'file': rel, 'line': ln, 'token': m.group(0), 'text': line.strip()[:160]})
    res = {
        'engine': 'shape', 'status': 'ok', 'obligations': 1, 'discharged': 1,
        'checker_cmd': 'vlib/shape.py frame_scan over /repo/src (comments, #[cfg(test)] modules, src/verif.rs and #[cfg(aho_corasick_verif)] items blanked)',
        'samples': [{'obligation': 'frame_scan: %d library files / %d lines contain none of: static mut, thread_local!, UnsafeCell, Cell<, RefCell, Atomic*, Mutex, RwLock, Once*, Lazy*, non-constant statics, *mut / cast_mut / as_mut_ptr / from_raw_parts_mut / NonNull / transmute (two allow-listed read-only sites), ptr::write / copy / swap' % (nfiles, nlines)}],
        'failures': [], 'trusted': ['rustc borrow checking: without interior mutability, code holding only `&self` cannot mutate the searcher (Rust soundness, assumed)'],
        'wall_s': time.time() - t0,
    }
    if hits:
        res['status'] = 'failed'
        res['discharged'] = 0
        for h in hits[:8]:
            res['failures'].append({
                'key': 'frame_scan:%s:%s' % (h['file'], h['token']), 'class': 'semantic',
                'msg': 'frame obligation "searches assign nothing outside caller-owned values" no longer discharged: %s:%d introduces shared mutable state (%s): %s' % (h['file'], h['line'], h['token'], h['text']),
                'function': h['file'], 'snippet': h['text']})
    return res
