"""Minimal Rust lexer helpers used by the extractor.

Only what is needed to (a) blank out comments while keeping every newline, so that line numbers
of the extracted text stay those of /repo, and (b) match braces/parens while skipping string,
char and lifetime tokens.
"""
import re


def _scan(text):
    """Yield (kind, start, end) for kind in {'code','line_comment','block_comment','str','char'}."""
    i, n = 0, len(text)
    code_start = 0
    while i < n:
        c = text[i]
        two = text[i:i + 2]
        if two == '//':
            if code_start < i:
                yield ('code', code_start, i)
            j = text.find('\n', i)
            if j < 0:
                j = n
            yield ('line_comment', i, j)
            i = j
            code_start = i
            continue
        if two == '/*':
            if code_start < i:
                yield ('code', code_start, i)
            depth, j = 1, i + 2
            while j < n and depth > 0:
                if text[j:j + 2] == '/*':
                    depth += 1
                    j += 2
                elif text[j:j + 2] == '*/':
                    depth -= 1
                    j += 2
                else:
                    j += 1
            yield ('block_comment', i, j)
            i = j
            code_start = i
            continue
        # raw strings  r"..."  r#"..."#  br#"..."#
        m = re.match(r'b?r(#*)"', text[i:i + 40]) if c in 'br' else None
        if m and (i == 0 or not (text[i - 1].isalnum() or text[i - 1] == '_')):
            if code_start < i:
                yield ('code', code_start, i)
            closer = '"' + m.group(1)
            j = text.find(closer, i + m.end())
            j = n if j < 0 else j + len(closer)
            yield ('str', i, j)
            i = j
            code_start = i
            continue
        if c == '"' or (c == 'b' and text[i:i + 2] == 'b"'
                        and (i == 0 or not (text[i - 1].isalnum() or text[i - 1] == '_'))):
            if code_start < i:
                yield ('code', code_start, i)
            j = i + (2 if c == 'b' else 1)
            while j < n and text[j] != '"':
                j += 2 if text[j] == '\\' else 1
            j = min(n, j + 1)
            yield ('str', i, j)
            i = j
            code_start = i
            continue
        if c == "'":
            # char literal or lifetime
            m = re.match(r"'(\\.[^']*|[^\\'])'", text[i:i + 16])
            if m:
                if code_start < i:
                    yield ('code', code_start, i)
                yield ('char', i, i + m.end())
                i += m.end()
                code_start = i
                continue
            # lifetime: leave as code
            i += 1
            continue
        i += 1
    if code_start < n:
        yield ('code', code_start, n)


def strip_comments(text):
    """Replace comments by whitespace, keeping newlines (line numbers are preserved)."""
    out = []
    dropped_lines = 0
    for kind, s, e in _scan(text):
        seg = text[s:e]
        if kind in ('line_comment', 'block_comment'):
            dropped_lines += seg.count('\n') + 1
            out.append(re.sub(r'[^\n]', ' ', seg))
        else:
            out.append(seg)
    return ''.join(out), dropped_lines


def code_mask(text):
    """Return a list of booleans: True where the character is code (not comment/str/char)."""
    mask = [False] * len(text)
    for kind, s, e in _scan(text):
        if kind == 'code':
            for k in range(s, e):
                mask[k] = True
    return mask


def match_close(text, open_idx, mask=None):
    """Index of the bracket closing the one at open_idx (one of ( [ { )."""
    if mask is None:
        mask = code_mask(text)
    op = text[open_idx]
    cl = {'(': ')', '[': ']', '{': '}'}[op]
    depth = 0
    for i in range(open_idx, len(text)):
        if not mask[i]:
            continue
        if text[i] == op:
            depth += 1
        elif text[i] == cl:
            depth -= 1
            if depth == 0:
                return i
    raise ValueError('unbalanced bracket at %d' % open_idx)
