"""Mechanical extraction of real functions from /repo/src into a Verus file (DESIGN.md 2.1).

A *unit template* (contracts/units/<unit>.rs.tpl) is Verus text with directive blocks:

    //@@ fn <file> | <anchor> [| within=<anchor>] [| nth=<k>] [| res=<name>] [| keep_attrs]
    //@@ sigsub <n> /regex/ => replacement      (rewrite applied to the signature only)
    //@@ sub <n> /regex/ => replacement         (rewrite applied to the body; n = expected hits)
    //@@ header
        requires ... ensures ...                (spliced between signature and body)
    //@@ loop <k>
        invariant ... decreases ...             (spliced before the `{` of the k-th loop keyword)
    //@@ before /regex/        //@@ after /regex/
        proof { ... }                           (spliced before / after the unique match)
    //@@ end

    //@@ item <file> | <anchor> [| within=..]   (struct/enum/impl cut verbatim, same sub rules)
    //@@ end

Everything outside directive blocks is copied as is (the hand-written spec prelude).
Comments in extracted text are blanked (newlines kept).  A directive whose anchor / regex does
not have the expected number of hits raises LostAnchor -> the check exits 2, never an alarm.
"""
import hashlib
import os
import re

from . import rustlex


class LostAnchor(Exception):
    pass


GLOBAL_DROPS = [
    # (name, regex) — removed from every extracted item, hit counts reported
    ('attr-inline', r'#\[inline(\([a-z]+\))?\]'),
    ('attr-cold', r'#\[cold\]'),
    ('attr-cfg-std', r'#\[cfg\(feature = "std"\)\]'),
    ('attr-doc-hidden', r'#\[doc\(hidden\)\]'),
    ('attr-derive-debug', r'#\[derive\(Debug\)\]'),
    ('debug-log', r'\bdebug!\((?:[^()]|\([^()]*\))*\);'),
    # statements of the verification hooks: not part of the crate when the guard is off
    ('hook-stmt', r'#\[cfg\(aho_corasick_verif\)\]\s*[^;{}]*;'),
]

GLOBAL_REWRITES = [
    # (name, regex, replacement) — fixed rule set of DESIGN.md 2.1 step 3
    ('R-ioPath', r'\bstd::io::', 'vio::'),
    ('R-closureWild', r'\|([^|]*?)\b_\b(?=[,|])', None),  # handled specially
]


def _flex(anchor):
    parts = [re.escape(p) for p in anchor.split()]
    rx = r'\s+'.join(parts)
    if re.match(r'\w', anchor[-1]):
        rx += r'(?!\w)'
    if re.match(r'\w', anchor[0]):
        rx = r'(?<!\w)' + rx
    return rx


class SourceFile:
    def __init__(self, repo, rel, doc=False):
        self.rel = rel
        self.path = os.path.join(repo, rel)
        with open(self.path, encoding='utf-8') as f:
            self.raw = f.read()
        if doc:
            # "doc view": the code inside `///` doc comments (documented recipes), everything
            # else blanked; line numbers are preserved
            lines = []
            for l in self.raw.split('\n'):
                m = re.match(r'^\s*///\s?(.*)$', l)
                lines.append(m.group(1) if m else '')
            self.raw = '\n'.join(lines)
        self.text, self.dropped_comment_lines = rustlex.strip_comments(self.raw)
        self.mask = rustlex.code_mask(self.text)

    def line_of(self, idx):
        return self.text.count('\n', 0, idx) + 1

    def find_scope(self, within):
        rx = re.compile(_flex(within))
        hits = [m for m in rx.finditer(self.text) if self.mask[m.start()]]
        if len(hits) != 1:
            raise LostAnchor('%s: scope anchor %r has %d hits' % (self.rel, within, len(hits)))
        i = hits[0].end()
        while i < len(self.text) and not (self.text[i] == '{' and self.mask[i]):
            i += 1
        j = rustlex.match_close(self.text, i, self.mask)
        return i, j

    def locate(self, anchor, within=None, nth=None):
        lo, hi = 0, len(self.text)
        if within:
            lo, hi = self.find_scope(within)
        rx = re.compile(_flex(anchor))
        hits = [m for m in rx.finditer(self.text, lo, hi) if self.mask[m.start()]]
        if nth is not None:
            if len(hits) < nth:
                raise LostAnchor('%s: anchor %r has %d hits, wanted #%d' % (self.rel, anchor, len(hits), nth))
            m = hits[nth - 1]
        else:
            if len(hits) != 1:
                raise LostAnchor('%s: anchor %r has %d hits (within=%r)' % (self.rel, anchor, len(hits), within))
            m = hits[0]
        # item start: beginning of the line holding the anchor
        start = self.text.rfind('\n', 0, m.start()) + 1
        # body: first `{` or `;` at paren/bracket depth 0
        i, depth = m.start(), 0
        while i < len(self.text):
            if self.mask[i]:
                c = self.text[i]
                if c in '([':
                    depth += 1
                elif c in ')]':
                    depth -= 1
                elif depth == 0 and c in '{;':
                    break
            i += 1
        if i >= len(self.text):
            raise LostAnchor('%s: no body for %r' % (self.rel, anchor))
        if self.text[i] == ';':
            return start, i, i + 1
        j = rustlex.match_close(self.text, i, self.mask)
        return start, i, j + 1


def _parse_sub(arg):
    # the hit count is a number, `+` (one or more) or `*` (any number): the open counts are for
    # path-like rewrites (`core::cmp::max(` -> a contract-carrying stub) whose meaning does not
    # depend on how often the code uses them
    m = re.match(r'\s*(\d+|\+|\*)\s+/(.*)/\s*=>\s?(.*)$', arg, re.S)
    if not m:
        raise ValueError('bad sub directive: %r' % arg)
    n = m.group(1)
    return (int(n) if n.isdigit() else n), m.group(2), m.group(3)


def _apply_sub(text, n, rx, repl, what):
    new, k = re.subn(rx, repl.replace('\\n', '\n'), text, flags=re.S)
    if (n == '+' and k < 1) or (isinstance(n, int) and k != n):
        raise LostAnchor('%s: rewrite /%s/ has %d hits, expected %s' % (what, rx, k, n))
    return new


def _loop_positions(body):
    """Offsets of the `{` opening each loop body, in order of the loop keyword."""
    mask = rustlex.code_mask(body)
    res = []
    for m in re.finditer(r'\b(while|loop|for)\b', body):
        if not mask[m.start()]:
            continue
        # skip labels' `'a: loop` handled naturally; skip `for<'a>` HRTB
        i, depth = m.end(), 0
        while i < len(body):
            if mask[i]:
                c = body[i]
                if c in '([':
                    depth += 1
                elif c in ')]':
                    depth -= 1
                elif c == '{' and depth == 0:
                    break
            i += 1
        res.append(i)
    return res


def _split_sig(sig):
    """Split `... fn f(..) -> Ret where ..` into (head, ret or None, where or '')."""
    mask = rustlex.code_mask(sig)
    # find the parameter list: first '(' after 'fn'
    fn = re.search(r'\bfn\b', sig)
    if not fn:
        return sig, None, ''
    i = sig.index('(', fn.end())
    j = rustlex.match_close(sig, i, mask)
    head, tail = sig[:j + 1], sig[j + 1:]
    wh = re.search(r'\bwhere\b', tail)
    where = ''
    if wh:
        where = tail[wh.start():]
        tail = tail[:wh.start()]
    arrow = tail.find('->')
    ret = tail[arrow + 2:].strip() if arrow >= 0 else None
    return head, ret, where.strip()


class Extracted:
    def __init__(self):
        self.functions = []   # dicts: name, file, lines, sha256
        self.rule_hits = {}
        self.dropped = {}
        self.linemap = []     # (gen_line_start, gen_line_end, file, src_line_start, label)
        self.canaries = []


def expand_template(tpl_text, repo, tpl_name='unit', canary=False):
    """Return (generated_text, Extracted)."""
    ex = Extracted()
    files = {}
    out_lines = []
    lines = tpl_text.split('\n')
    i = 0

    def src(rel, doc=False):
        key = (rel, doc)
        if key not in files:
            p = os.path.join(repo, rel)
            if not os.path.exists(p):
                raise LostAnchor('source file %s is missing' % rel)
            files[key] = SourceFile(repo, rel, doc)
        return files[key]

    while i < len(lines):
        line = lines[i]
        mc = re.match(r'\s*//@@\s+canary\s+(.*)$', line)
        if mc:
            # vacuity guard for hand-written lemmas: in canary mode the lemma body starts with
            # assert(false), which must fail (its hypotheses are not contradictory as far as Z3 can tell)
            if canary:
                out_lines.append('assert(false); /*CANARY lemma %s*/' % mc.group(1).strip())
                ex.canaries.append('lemma ' + mc.group(1).strip())
            i += 1
            continue
        m = re.match(r'\s*//@@\s+(fn|item)\s+(.*)$', line)
        if not m:
            out_lines.append(line)
            i += 1
            continue
        kind = m.group(1)
        fields = [f.strip() for f in m.group(2).split('|')]
        rel, anchor = fields[0], fields[1]
        opts = {}
        for f in fields[2:]:
            if '=' in f:
                k, v = f.split('=', 1)
                opts[k.strip()] = v.strip()
            else:
                opts[f] = True
        # collect directive block
        blocks = []  # (directive, arg, [text lines])
        i += 1
        cur = None
        while i < len(lines):
            l2 = lines[i]
            d = re.match(r'\s*//@@\s+(\w+)\s?(.*)$', l2)
            if d:
                if d.group(1) == 'end':
                    i += 1
                    break
                cur = (d.group(1), d.group(2), [])
                blocks.append(cur)
            elif cur is not None:
                cur[2].append(l2)
            elif l2.strip():
                raise ValueError('%s: text outside a directive in block for %s' % (tpl_name, anchor))
            i += 1
        sf = src(rel, bool(opts.get('doc')))
        start, bopen, end = sf.locate(anchor, opts.get('within'),
                                      int(opts['nth']) if 'nth' in opts else None)
        what = '%s:%s' % (rel, anchor)
        sig = sf.text[start:bopen]
        body = sf.text[bopen:end]
        src_line0 = sf.line_of(start)
        src_line1 = sf.line_of(end - 1)
        raw_item = sf.raw_slice = sf.text[start:end]
        sha = hashlib.sha256(re.sub(r'\s+', ' ', raw_item).encode()).hexdigest()
        # global drops / rewrites
        for name, rx in GLOBAL_DROPS:
            for part in ('sig', 'body'):
                t = sig if part == 'sig' else body
                t2, k = re.subn(rx, '', t)
                if k:
                    ex.dropped[name] = ex.dropped.get(name, 0) + k
                if part == 'sig':
                    sig = t2
                else:
                    body = t2
        for part in ('sig', 'body'):
            t = sig if part == 'sig' else body
            t2, k = re.subn(r'\bstd::io::', 'vio::', t)
            if k:
                ex.rule_hits['R-ioPath'] = ex.rule_hits.get('R-ioPath', 0) + k
            if part == 'sig':
                sig = t2
            else:
                body = t2
        header, loops, inserts = '', {}, []
        for d, arg, txt in blocks:
            text = '\n'.join(txt)
            if d == 'sigsub':
                n, rx, repl = _parse_sub(arg)
                sig = _apply_sub(sig, n, rx, repl, what + ' (signature)')
                ex.rule_hits['sigsub:' + rx] = n if isinstance(n, int) else 1
            elif d == 'sub':
                n, rx, repl = _parse_sub(arg)
                body = _apply_sub(body, n, rx, repl, what)
                ex.rule_hits['sub:' + rx] = ex.rule_hits.get('sub:' + rx, 0) + (n if isinstance(n, int) else 1)
            elif d == 'header':
                header = text
            elif d == 'loop':
                loops[int(arg.strip())] = text
            elif d in ('before', 'after'):
                rx = arg.strip()
                # optional ordinal "k/n /re/": the k-th of exactly n hits (statement-position
                # anchors that do not quote the expression a hint is about)
                om = re.match(r'(\d+)/(\d+)\s+(/.*/)$', rx)
                ordn = None
                if om:
                    ordn, rx = (int(om.group(1)), int(om.group(2))), om.group(3)
                if not (rx.startswith('/') and rx.endswith('/')):
                    raise ValueError('bad anchor regex %r' % rx)
                inserts.append((d, rx[1:-1], text, ordn))
            else:
                raise ValueError('%s: unknown directive %s' % (tpl_name, d))
        # hints (before loops so that offsets stay valid: do all as offset edits, back to front)
        edits = []
        for d, rx, text, ordn in inserts:
            hits = list(re.finditer(rx, body, flags=re.S))
            k, n = ordn or (1, 1)
            if len(hits) != n:
                raise LostAnchor('%s: hint anchor /%s/ has %d hits, expected %d' % (what, rx, len(hits), n))
            pos = hits[k - 1].start() if d == 'before' else hits[k - 1].end()
            edits.append((pos, '\n' + text + '\n'))
        if loops:
            lp = _loop_positions(body)
            for k, text in loops.items():
                if k < 1 or k > len(lp):
                    raise LostAnchor('%s: loop #%d not found (%d loops)' % (what, k, len(lp)))
                edits.append((lp[k - 1], '\n' + text + '\n'))
                if canary:
                    edits.append((lp[k - 1] + 1, ' assert(false); /*CANARY loop %d of %s*/ ' % (k, anchor.replace('*/', ''))))
                    ex.canaries.append('loop %d of %s' % (k, anchor))
            ex.rule_hits.setdefault('loops:' + anchor, len(lp))
        if canary and kind == 'fn' and body.startswith('{') and not opts.get('nocanary') and not stub:
            edits.append((1, ' assert(false); /*CANARY fn %s*/ ' % anchor.replace('*/', '')))
            ex.canaries.append('fn ' + anchor)
        for pos, text in sorted(edits, key=lambda e: (-e[0], 0 if 'CANARY' in e[1] else 1)):
            body = body[:pos] + text + body[pos:]
        stub = opts.get('stub')
        if stub in ('0', '', None):
            stub = None
        if kind == 'fn' and stub:
            # modular stub: the callee's contract only; its body is verified in unit `stub`
            body = '{ unimplemented!() }'
        if kind == 'fn':
            head, ret, where = _split_sig(sig)
            res = opts.get('res', 'res')
            gen = head
            if ret is not None:
                gen += ' -> (%s: %s)' % (res, ret)
            if where:
                gen += '\n    ' + where
                if not where.rstrip().endswith(','):
                    gen += ','
            if header.strip():
                gen += '\n' + header
            gen += '\n' + body
        else:
            gen = sig + body
        # strip now-empty lines produced by comment blanking to keep the file readable
        gen = re.sub(r'\n[ \t]*(?=\n)', '\n', gen)
        gen = re.sub(r'\n{3,}', '\n\n', gen)
        g0 = len(out_lines) + 1
        if kind == 'fn' and stub:
            out_lines.append('#[verifier::external_body] // MODULAR-STUB-OF %s: contract discharged there on the real body' % stub)
        out_lines.append('// >>> extracted from /repo/%s lines %d-%d sha256=%s' % (rel, src_line0, src_line1, sha[:16]))
        out_lines.extend(gen.split('\n'))
        out_lines.append('// <<< end of extract')
        ex.linemap.append((g0, len(out_lines), rel, src_line0, anchor))
        ex.functions.append({'anchor': anchor, 'file': rel, 'lines': [src_line0, src_line1],
                             'sha256': sha, 'kind': kind if not stub else 'stub-of:' + stub})
    ex.dropped['comment_lines_in_files_read'] = sum(f.dropped_comment_lines for f in files.values())
    return '\n'.join(out_lines), ex
