"""Run Verus on a generated unit file and classify the outcome (DESIGN.md 2.4)."""
import hashlib
import json
import os
import re
import subprocess
import time

from . import extract

VERIF = os.path.dirname(os.path.dirname(os.path.abspath(__file__)))
REPO = os.environ.get('VERIF_REPO', '/repo')
GEN = os.path.join(VERIF, '.gen')
CACHE = os.path.join(VERIF, '.cache', 'verus')

SEMANTIC = [
    'assertion failed', 'postcondition not satisfied', 'precondition not satisfied',
    'invariant not satisfied', 'possible arithmetic underflow/overflow', 'decreases not satisfied',
    'possible division by zero', 'index out of bounds', 'loop invariant', 'unreachable',
    'possible bit shift underflow/overflow', 'recommendation not met', 'failed this postcondition',
    'could not prove termination', 'arithmetic overflow', 'constructed value may fail to meet its declared type invariant',
    'assert_eq', 'panic',
]
NOT_SEMANTIC = ['rlimit', 'Resource limit', 'timed out', 'solver']


def scan_trusted(text):
    """Mechanical scan for everything that is assumed rather than proved in a generated file."""
    found = []
    lines = text.split('\n')
    for i, l in enumerate(lines):
        code = l.split('//')[0]
        ms = re.search(r'MODULAR-STUB-OF (\w+)', l)
        if ms:
            nm = None
            for j in range(i, min(i + 8, len(lines))):
                m2 = re.search(r'\bfn\s+(\w+)', lines[j])
                if m2:
                    nm = m2.group(1)
                    break
            found.append('modular-stub:%s (contract discharged on the real body in unit %s)' % (nm, ms.group(1)))
            continue
        if re.search(r'external_body|assume_specification|\buninterp\b|\bassume\s*\(|\badmit\s*\(|external_fn_specification|#\[verifier::external\b|verifier::external_type_specification|verifier::external_trait_specification|broadcast\s+axiom|\baxiom\b', code):
            # name the item: look ahead for fn/struct name
            name = None
            for j in range(i, min(i + 6, len(lines))):
                m = re.search(r'\b(fn|struct|trait|type)\s+(\w+)', lines[j])
                if m:
                    name = m.group(2)
                    break
            kind = re.search(r'external_body|assume_specification|uninterp|assume|admit|external_fn_specification|external_type_specification|external_trait_specification|external|axiom', code).group(0)
            found.append('%s:%s' % (kind, name or ('line%d' % (i + 1))))
    return sorted(set(found))


def generate(unit, repo=REPO, canary=False):
    tpl_path = os.path.join(VERIF, 'contracts', 'units', unit + '.rs.tpl')
    with open(tpl_path) as f:
        tpl = f.read()
    # includes: //@@ include <file relative to contracts/prelude>
    def inc(m):
        parts = m.group(1).split()
        with open(os.path.join(VERIF, 'contracts', 'prelude', parts[0])) as g:
            t = g.read()
        for kv in parts[1:]:
            k, v = kv.split('=', 1)
            t = t.replace('${%s}' % k, v)
        return re.sub(r'\$\{\w+\}', '0', t)
    for _ in range(3):
        tpl = re.sub(r'^[ \t]*//@@ include (.*)$', inc, tpl, flags=re.M)
    text, ex = extract.expand_template(tpl, repo, unit, canary=canary)
    os.makedirs(GEN, exist_ok=True)
    path = os.path.join(GEN, unit + ('__canary' if canary else '') + '.rs')
    with open(path, 'w') as f:
        f.write(text)
    return path, text, ex


def _parse_diagnostics(stderr, text, ex):
    """Split rustc-style diagnostics into records."""
    recs = []
    blocks = re.split(r'\n(?=(?:error|warning|note)(?:\[[A-Z0-9]+\])?: )', '\n' + stderr)
    gl = text.split('\n')
    for b in blocks:
        b = b.strip('\n')
        m = re.match(r'(error|warning|note)(?:\[[A-Z0-9]+\])?: (.*)', b)
        if not m:
            continue
        level, msg = m.group(1), m.group(2).split('\n')[0]
        if level != 'error' or msg.startswith('aborting due to'):
            continue
        locs = [(int(a), int(c)) for a, c in re.findall(r'--> [^\n:]+:(\d+):(\d+)', b)]
        locs += [(int(a), 0) for a in re.findall(r'\n\s*(\d+)\s*\|', b)]
        func, srcfile, snippet = None, None, None
        # attribute to the extracted function containing the *primary* location; else any location
        for (ln, _c) in locs:
            for (g0, g1, rel, s0, anchor) in ex.linemap:
                if g0 <= ln <= g1:
                    func, srcfile = anchor, rel
                    break
            if func:
                break
        if locs:
            ln = locs[0][0]
            if 1 <= ln <= len(gl):
                snippet = gl[ln - 1].strip()
        recs.append({'msg': msg, 'gen_line': locs[0][0] if locs else None, 'function': func,
                     'file': srcfile, 'snippet': snippet, 'raw': b[:3000]})
    return recs


def classify(rec):
    msg = rec['msg']
    if any(k in msg for k in NOT_SEMANTIC):
        return 'resource'
    if any(k in msg for k in SEMANTIC):
        return 'semantic'
    return 'tool'


class _Done:
    def __init__(self, rc, out, err):
        self.returncode, self.stdout, self.stderr = rc, out, err


def _run_limited(cmd, limit):
    """Run verus in its own process group; on a wall-clock time-out kill the whole group (verus and
    its z3) and return None."""
    import signal
    pr = subprocess.Popen(cmd, stdout=subprocess.PIPE, stderr=subprocess.PIPE, text=True, cwd=GEN, start_new_session=True)
    try:
        out, err = pr.communicate(timeout=limit)
    except subprocess.TimeoutExpired:
        try:
            os.killpg(pr.pid, signal.SIGKILL)
        except Exception:
            pass
        pr.communicate()
        return None
    return _Done(pr.returncode, out, err)


def run(unit, tier='quick', use_cache=True, repo=REPO, rlimit=None, extra_args=()):
    """Generate + verify one unit.  Returns a result dict; never raises on verification failure."""
    t0 = time.time()
    res = {'unit': unit, 'engine': 'verus'}
    try:
        path, text, ex = generate(unit, repo)
    except extract.LostAnchor as e:
        res.update(status='lost_anchor', detail=str(e), wall_s=time.time() - t0)
        return res
    sha = hashlib.sha256(text.encode()).hexdigest()
    res.update(gen_file=path, gen_sha256=sha,
               functions=ex.functions, rule_hits=ex.rule_hits, dropped=ex.dropped,
               trusted=scan_trusted(text))
    cpath = os.path.join(CACHE, '%s-%s.json' % (unit, sha[:24]))
    if use_cache and tier == 'quick' and os.path.exists(cpath):
        with open(cpath) as f:
            cached = json.load(f)
        cached['cached'] = True
        cached['wall_s'] = time.time() - t0
        return cached
    cmd = ['verus', path, '--output-json', '--time', '--multiple-errors', '20'] + list(extra_args)
    unit_rlimit = re.search(r'^// VERUS-RLIMIT (\d+)', text, flags=re.M)
    if rlimit:
        cmd += ['--rlimit', str(rlimit)]
    elif unit_rlimit:
        cmd += ['--rlimit', unit_rlimit.group(1)]
    res['checker_cmd'] = ' '.join(cmd)
    # wall-clock limit: --rlimit does not bound every query (nonlinear arithmetic can run away on a
    # changed function); a runaway solver is "undecided" (exit 2), never an alarm
    limit = int(os.environ.get('VERIF_VERUS_TIMEOUT', '900' if tier == 'quick' else '2400'))
    p = _run_limited(cmd, limit)
    if p is None:
        res.update(status='resource', detail='verus did not finish unit %s within %d s (solver time-out: undecided)' % (unit, limit), wall_s=time.time() - t0)
        return res
    try:
        j = json.loads(p.stdout)
    except Exception:
        j = None
    stderr = p.stderr
    res['stderr_tail'] = stderr[-6000:]
    if j is None or 'verification-results' not in j:
        res.update(status='tool_error', detail='verus produced no JSON result', wall_s=time.time() - t0)
        return res
    vr = j['verification-results']
    res['verified'] = vr.get('verified', 0)
    res['errors'] = vr.get('errors', 0)
    smt = j.get('times-ms', {}).get('smt', {})
    fb = []
    for mt in smt.get('smt-run-module-times', []):
        for f in mt.get('function-breakdown', []):
            fb.append({'function': f['function'].split('::', 1)[-1], 'mode': f.get('mode:'),
                       'ms': f.get('time'), 'rlimit': f.get('rlimit'), 'success': f.get('success')})
    res['per_function'] = fb
    res['solver_ms'] = smt.get('total')
    res['total_ms'] = j.get('times-ms', {}).get('total')
    diags = _parse_diagnostics(stderr, text, ex)
    for d in diags:
        d['class'] = classify(d)
    res['failures'] = diags
    if vr.get('success') and vr.get('errors', 0) == 0 and not vr.get('encountered-error'):
        res['status'] = 'ok'
    elif vr.get('encountered-vir-error') or (vr.get('errors', 0) == 0):
        res['status'] = 'tool_error'
        res['detail'] = (diags[0]['msg'] if diags else stderr[-500:])
    else:
        classes = set(d['class'] for d in diags)
        if 'semantic' in classes:
            res['status'] = 'failed'
        elif 'resource' in classes and rlimit is None:
            # retry once with a larger resource limit (DESIGN 2.4)
            r2 = run(unit, tier, False, repo, rlimit=400, extra_args=extra_args)
            r2['retried_rlimit'] = True
            return r2
        elif 'resource' in classes:
            res['status'] = 'resource'
            res['detail'] = 'rlimit exceeded after retry'
        else:
            res['status'] = 'tool_error'
            res['detail'] = (diags[0]['msg'] if diags else 'unknown')
    res['wall_s'] = time.time() - t0
    if res['status'] == 'ok':
        os.makedirs(CACHE, exist_ok=True)
        with open(cpath, 'w') as f:
            json.dump(res, f)
    return res


def run_canaries(unit, tier='quick', repo=REPO):
    """Vacuity guard: with `assert(false)` spliced at the top of every function under contract and
    of every annotated loop body, each of them must FAIL.  A canary that verifies means that the
    preconditions / invariants are contradictory, i.e. the real proof would be vacuous."""
    t0 = time.time()
    try:
        path, text, ex = generate(unit, repo, canary=True)
    except extract.LostAnchor as e:
        return {'status': 'lost_anchor', 'detail': str(e)}
    sha = hashlib.sha256(text.encode()).hexdigest()
    cpath = os.path.join(CACHE, '%s-canary-%s.json' % (unit, sha[:24]))
    if tier == 'quick' and os.path.exists(cpath):
        with open(cpath) as f:
            r = json.load(f)
        r['cached'] = True
        return r
    p = _run_limited(['verus', path, '--output-json', '--multiple-errors', '50'], 900)
    if p is None:
        return {'status': 'resource', 'detail': 'canary run of %s timed out' % unit, 'wall_s': time.time() - t0}
    lines = text.split('\n')
    want = {}
    for i, l in enumerate(lines):
        for m in re.finditer(r'/\*CANARY (.*?)\*/', l):
            want[i + 1] = m.group(1)
    failed_lines = set()
    for m in re.finditer(r'error: assertion failed\n\s*--> [^\n:]+:(\d+):', p.stderr):
        failed_lines.add(int(m.group(1)))
    alive = [name for ln, name in want.items() if ln not in failed_lines]
    r = {'status': 'ok' if not alive and want else 'vacuous', 'canaries': len(want),
         'canaries_failed_as_required': len(want) - len(alive), 'vacuous': alive,
         'wall_s': time.time() - t0}
    if r['status'] == 'ok':
        os.makedirs(CACHE, exist_ok=True)
        with open(cpath, 'w') as f:
            json.dump(r, f)
    else:
        r['stderr_tail'] = p.stderr[-3000:]
    return r
