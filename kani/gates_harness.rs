
// ---- appended by /verif/vlib/kani.py ----
#[cfg(kani)]
mod verif_kani_gates {
    use super::*;

    /// C13 (a): the start-kind gate accepts exactly the covered anchoring modes.  Finite enum
    /// domains, loop-free: complete.
    #[kani::proof]
    fn enforce_anchored_consistency_table() {
        let have = match kani::any::<u8>() % 3 {
            0 => StartKind::Both,
            1 => StartKind::Unanchored,
            _ => StartKind::Anchored,
        };
        let want_anchored: bool = kani::any();
        let want = if want_anchored { Anchored::Yes } else { Anchored::No };
        let r = enforce_anchored_consistency(have, want);
        let covered = match have {
            StartKind::Both => true,
            StartKind::Unanchored => !want_anchored,
            StartKind::Anchored => want_anchored,
        };
        assert!(r.is_ok() == covered);
        kani::cover!(matches!(have, StartKind::Anchored) && !want_anchored);
        kani::cover!(matches!(have, StartKind::Both));
    }
}
