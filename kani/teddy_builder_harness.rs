
// ---- appended by /verif/vlib/kani.py ----
#[cfg(kani)]
mod verif_kani_teddy_searcher {
    use super::*;
    use crate::packed::ext::Pointer;

    /// stands in for a Teddy implementation: checks what it is handed and reports a match at
    /// symbolic offsets relative to the start pointer
    #[derive(Debug)]
    struct Fake {
        want_len: usize,
        off_start: usize,
        off_end: usize,
        pid: u32,
    }
    impl SearcherT for Fake {
        unsafe fn find(&self, start: *const u8, end: *const u8) -> Option<crate::packed::teddy::generic::Match> {
            // C10/C15: the implementation is handed exactly [haystack + at, haystack + len)
            assert!(end.distance(start) == self.want_len);
            Some(crate::packed::teddy::generic::verif_kani_mk_match(
                crate::PatternID::new_unchecked(self.pid as usize),
                start.add(self.off_start),
                start.add(self.off_end),
            ))
        }
    }

    /// C10/C15: teddy::Searcher::find hands the implementation the pointers of haystack[at..],
    /// and converts the pointer match back to absolute offsets (start/end relative to the whole
    /// haystack, not to `at`).  Haystack length symbolic up to 6 bytes (pointer arithmetic only).
    #[kani::proof]
    fn teddy_searcher_find_offsets() {
        let hay = [0u8; 6];
        let len: usize = kani::any();
        let at: usize = kani::any();
        let min: usize = kani::any();
        kani::assume(len <= 6 && at <= len && len - at >= min);
        let (o1, o2): (usize, usize) = (kani::any(), kani::any());
        kani::assume(o1 <= o2 && o2 <= len - at);
        let pid: u32 = kani::any();
        kani::assume(pid < 1000);
        let s = Searcher { imp: Arc::new(Fake { want_len: len - at, off_start: o1, off_end: o2, pid }), memory_usage: 0, minimum_len: min };
        let m = s.find(&hay[..len], at).unwrap();
        assert!(m.start() == at + o1 && m.end() == at + o2);
        assert!(m.pattern().as_usize() == pid as usize);
        kani::cover!(at > 0 && o1 > 0 && o2 > o1);
        kani::cover!(len - at == min);
    }

    /// C15: a haystack shorter than the minimum length never reaches the vector code: the
    /// assert fires (callers are proved never to do this: unit u5_packed_api).
    #[kani::proof]
    #[kani::should_panic]
    fn teddy_searcher_find_asserts_minimum_len() {
        let hay = [0u8; 6];
        let len: usize = kani::any();
        let at: usize = kani::any();
        let min: usize = kani::any();
        kani::assume(len <= 6 && at <= len && len - at < min);
        let s = Searcher { imp: Arc::new(Fake { want_len: 0, off_start: 0, off_end: 0, pid: 0 }), memory_usage: 0, minimum_len: min };
        let _ = s.find(&hay[..len], at);
    }
}
