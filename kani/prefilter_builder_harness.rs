// ---- appended by /verif/vlib/kani.py (harnesses see private items; /repo itself is untouched) ----
#[cfg(kani)]
mod verif_kani_prefilter_builder {
    use super::*;

    /// C11/C05: after `StartBytesBuilder::add(p)` the first byte of p is in the set and, when
    /// ASCII case-insensitivity is on, so is its other-case twin — and nothing else is.
    /// Loop-free over full domains (first byte, flag): complete.
    #[kani::proof]
    fn start_bytes_builder_add_folds_exactly_ascii_letters() {
        let ci: bool = kani::any();
        let mut b = StartBytesBuilder::new().ascii_case_insensitive(ci);
        let first: u8 = kani::any();
        let second: u8 = kani::any();
        let pat = [first, second];
        b.add(&pat);
        let other: u8 = kani::any();
        let twin = opposite_ascii_case(first);
        let want = other == first || (ci && other == twin);
        assert!(b.byteset[other as usize] == want);
        assert!(b.count == if ci && twin != first { 2 } else { 1 });
        kani::cover!(ci && first == b'q' && other == b'Q');
        kani::cover!(ci && first == b'[');
        kani::cover!(!ci && first == b'q' && other == b'Q');
    }

    /// C11/C05: the hypothesis the rare-byte prefilters rely on.  After `RareBytesBuilder::add(p)`
    /// (builder still available): every byte of p — and its other-case twin when ASCII
    /// case-insensitivity is on — has a recorded offset >= its position, and some byte of p is in
    /// the rare set together with its twin.  Checked after two successive adds, so that the
    /// "already chosen byte" shortcut and offset merging are exercised.
    #[kani::proof]
    #[kani::unwind(4)]
    fn rare_bytes_builder_add_covers_every_pattern() {
        let ci: bool = kani::any();
        let mut b = RareBytesBuilder::new().ascii_case_insensitive(ci);
        let p1: [u8; 2] = kani::any();
        let p2: [u8; 3] = kani::any();
        let n1: usize = kani::any();
        let n2: usize = kani::any();
        kani::assume(1 <= n1 && n1 <= 2 && 1 <= n2 && n2 <= 3);
        b.add(&p1[..n1]);
        b.add(&p2[..n2]);
        assert!(b.available);
        // every position of both patterns
        let pos: usize = kani::any();
        let which: bool = kani::any();
        let (byte, ok) = if which { (p1[pos % 2], pos < n1) } else { (p2[pos % 3], pos < n2) };
        let pos = if which { pos % 2 } else { pos % 3 };
        if ok {
            assert!(b.byte_offsets.set[byte as usize].max as usize >= pos);
            if ci {
                assert!(b.byte_offsets.set[opposite_ascii_case(byte) as usize].max as usize >= pos);
            }
        }
        // some byte of each pattern is a rare byte, with its twin
        let mut hit1 = false;
        for i in 0..n1 {
            if b.rare_set.contains(p1[i]) && (!ci || b.rare_set.contains(opposite_ascii_case(p1[i]))) {
                hit1 = true;
            }
        }
        let mut hit2 = false;
        for i in 0..n2 {
            if b.rare_set.contains(p2[i]) && (!ci || b.rare_set.contains(opposite_ascii_case(p2[i]))) {
                hit2 = true;
            }
        }
        assert!(hit1 && hit2);
        kani::cover!(ci && n2 == 3 && p2[2] == b'k' && p1[0] == b'K');
        kani::cover!(!ci && n1 == 2 && n2 == 3);
    }
}
