
// ---- appended by /verif/vlib/kani.py ----
#[cfg(kani)]
mod verif_kani_buffer {
    use super::*;

    /// C07/C18: `free_buffer` (the one function of the roll buffer that the Verus units take on
    /// trust) is exactly the unused tail of the allocation: it starts at `end` and runs to the end
    /// of the buffer, for every capacity — in particular capacities above the 64 KiB default.
    #[kani::proof]
    fn free_buffer_is_the_unused_tail() {
        let cap: usize = kani::any();
        kani::assume(cap >= 2 && cap <= 300_000);
        let end: usize = kani::any();
        kani::assume(end <= cap);
        let mut b = Buffer { buf: vec![0u8; cap], min: 1, end };
        let base = b.buf.as_ptr() as usize;
        let fb = b.free_buffer();
        assert!(fb.len() == cap - end);
        assert!(fb.as_ptr() as usize == base + end);
        kani::cover!(cap > 65536 && end > 65536);
        kani::cover!(cap > 65536 && end == 0);
        kani::cover!(end == cap);
    }
}
