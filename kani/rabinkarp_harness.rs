
// ---- appended by /verif/vlib/kani.py ----
#[cfg(kani)]
mod verif_kani_rabinkarp {
    use super::*;

    /// the rolling-hash contract for a minimum pattern length L: RabinKarp::new computes
    /// hash_2pow = 2^(L-1) mod 2^64, and rolling one byte (`update_hash`) equals re-hashing the
    /// shifted window, for every window content
    fn check_roll<const L: usize, const L1: usize>() {
        let mut pats = Patterns::new();
        let p = [b'a'; L];
        pats.add(&p);
        let pats = Arc::new(pats);
        let rk = RabinKarp::new(&pats);
        assert!(rk.hash_len == L);
        let mut want = 1usize;
        let mut i = 1;
        while i < L {
            want = want.wrapping_mul(2);
            i += 1;
        }
        assert!(rk.hash_2pow == want);
        let w: [u8; L1] = kani::any();
        let h0 = rk.hash(&w[..L]);
        let h1 = rk.hash(&w[1..]);
        assert!(rk.update_hash(h0, w[0], w[L]) == h1);
    }

    /// C06: small windows (1, 2, 3 bytes), symbolic contents
    #[kani::proof]
    #[kani::unwind(70)]
    fn rabinkarp_roll_small() {
        check_roll::<1, 2>();
        check_roll::<2, 3>();
        check_roll::<3, 4>();
    }

    /// C06: windows around the width of the 64-bit hash (the oldest byte has been shifted out)
    #[kani::proof]
    #[kani::unwind(70)]
    fn rabinkarp_roll_wide() {
        check_roll::<8, 9>();
        check_roll::<63, 64>();
        check_roll::<64, 65>();
        check_roll::<65, 66>();
        check_roll::<66, 67>();
    }
}
