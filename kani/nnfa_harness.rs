// ---- appended by /verif/vlib/kani.py ----
#[cfg(kani)]
mod verif_kani_nnfa {
    use super::*;

    /// number of entries of the symbolic sparse / match tables, sentinel at index 0 included
    const N: usize = 5;

    /// `chain_lookup` of contracts/units/u3_nnfa.rs.tpl, as executable Rust
    fn spec_lookup(sparse: &[Transition], mut link: usize, byte: u8) -> StateID {
        let mut fuel = sparse.len();
        while fuel > 0 {
            if link == 0 || link >= sparse.len() {
                return NFA::FAIL;
            }
            let t = sparse[link];
            if byte <= t.byte {
                return if byte == t.byte { t.next } else { NFA::FAIL };
            }
            let l = t.link;
            link = l.as_usize();
            fuel -= 1;
        }
        NFA::FAIL
    }

    fn mk(sparse: Vec<Transition>, matches: Vec<Match>, head: StateID, mhead: StateID, dense: StateID, dense_tab: Vec<StateID>) -> NFA {
        NFA {
            match_kind: MatchKind::Standard,
            states: vec![State { sparse: head, dense, matches: mhead, fail: StateID::ZERO, depth: SmallIndex::ZERO }],
            sparse,
            dense: dense_tab,
            matches,
            pattern_lens: vec![],
            prefilter: None,
            byte_classes: ByteClasses::empty(),
            min_pattern_len: 0,
            max_pattern_len: 0,
            special: Special::zero(),
        }
    }

    fn any_sid(below: usize) -> StateID {
        let x: usize = kani::any();
        kani::assume(x < below);
        StateID::new_unchecked(x)
    }

    /// C16/C04: the sparse lookup (written with `core::iter::from_fn`, outside the Verus subset)
    /// is `chain_lookup`: the first transition of the sorted chain whose byte is >= the wanted
    /// byte decides.  Hypothesis (part of nnfa_wf): bytes increase strictly along a chain.
    #[kani::proof]
    #[kani::unwind(7)]
    fn follow_transition_sparse_is_chain_lookup() {
        let mut sparse = vec![Transition::default(); N];
        for i in 1..N {
            sparse[i] = Transition { byte: kani::any(), next: any_sid(1 << 20), link: any_sid(N) };
        }
        for i in 1..N {
            let l = { let x = sparse[i].link; x.as_usize() };
            if l != 0 {
                let (a, b) = (sparse[i].byte, sparse[l].byte);
                kani::assume(a < b);
            }
        }
        let head = any_sid(N);
        let nfa = mk(sparse, vec![Match::default()], head, StateID::ZERO, StateID::ZERO, vec![]);
        let byte: u8 = kani::any();
        let r = nfa.follow_transition_sparse(StateID::ZERO, byte);
        let want = spec_lookup(&nfa.sparse, head.as_usize(), byte);
        assert!(r == want);
        // follow_transition without a dense row is the same function
        assert!(nfa.follow_transition(StateID::ZERO, byte) == want);
        kani::cover!(r != NFA::FAIL && head.as_usize() != 0 && nfa.sparse[head.as_usize()].byte != byte);
        kani::cover!(r == NFA::FAIL && head.as_usize() != 0);
    }

    /// the match list of a state: `match_len` counts the chain, `match_pattern(i)` is its i-th
    /// element.  Hypothesis (part of nnfa_wf): links point forward in the match table.
    #[kani::proof]
    #[kani::unwind(7)]
    fn match_len_and_match_pattern_walk_the_chain() {
        let mut matches = vec![Match::default(); N];
        for i in 1..N {
            let l = any_sid(N);
            kani::assume(l.as_usize() == 0 || l.as_usize() > i);
            matches[i] = Match { pid: PatternID::new_unchecked(kani::any::<u16>() as usize), link: l };
        }
        let mhead = any_sid(N);
        let nfa = mk(vec![Transition::default()], matches, StateID::ZERO, mhead, StateID::ZERO, vec![]);
        // the chain, by the definition
        let mut chain: [usize; N] = [0; N];
        let mut len = 0usize;
        let mut l = mhead.as_usize();
        while l != 0 {
            chain[len] = l;
            len += 1;
            l = { let x = nfa.matches[l].link; x.as_usize() };
        }
        assert!(nfa.match_len(StateID::ZERO) == len);
        kani::cover!(len == 0);
        let index: usize = kani::any();
        kani::assume(index < len);
        let (got, want) = (nfa.match_pattern(StateID::ZERO, index), { let x = nfa.matches[chain[index]].pid; x });
        assert!(got == want);
        kani::cover!(len == 3 && index == 2);
    }
}
