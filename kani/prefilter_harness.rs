
// ---- appended by /verif/vlib/kani.py (harnesses see private items; /repo itself is untouched) ----
#[cfg(kani)]
mod verif_kani_prefilter {
    use super::*;

    /// C11: the case flip touches exactly the ASCII letters, is an involution, fixes the rest.
    /// Loop-free over the full u8 domain: complete.
    #[kani::proof]
    fn opposite_ascii_case_exact() {
        let b: u8 = kani::any();
        let r = opposite_ascii_case(b);
        if b >= b'A' && b <= b'Z' {
            assert!(r == b + 0x20);
        } else if b >= b'a' && b <= b'z' {
            assert!(r == b - 0x20);
        } else {
            assert!(r == b);
        }
        assert!(opposite_ascii_case(r) == b);
        kani::cover!(b == b'@' || b == b'[' || b == b'`' || b == b'{' || b >= 0x80);
        kani::cover!(b == b'q');
    }

    /// C05: RareByteOffsets::set keeps the maximum offset per byte and touches no other byte.
    #[kani::proof]
    fn rare_byte_offsets_set_is_max() {
        let mut o = RareByteOffsets::empty();
        let b: u8 = kani::any();
        let other: u8 = kani::any();
        kani::assume(other != b);
        let m1: u8 = kani::any();
        let m2: u8 = kani::any();
        o.set(b, RareByteOffset { max: m1 });
        o.set(b, RareByteOffset { max: m2 });
        assert!(o.set[b as usize].max == if m1 >= m2 { m1 } else { m2 });
        assert!(o.set[other as usize].max == 0);
        kani::cover!(m1 > m2);
        kani::cover!(m2 > m1);
    }

    /// C05: RareByteOffset::new fails exactly above 255 (so set_offset's unwrap is safe only
    /// for patterns shorter than 256 bytes, which RareBytesBuilder::add guarantees).
    #[kani::proof]
    fn rare_byte_offset_new_limit() {
        let n: usize = kani::any();
        match RareByteOffset::new(n) {
            None => assert!(n > 255),
            Some(o) => assert!(n <= 255 && o.max as usize == n),
        }
        kani::cover!(n == 255);
        kani::cover!(n == 256);
    }
}
