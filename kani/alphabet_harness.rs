
// ---- appended by /verif/vlib/kani.py ----
#[cfg(kani)]
mod verif_kani_alphabet {
    use super::*;

    fn any_byteset() -> ByteSet {
        ByteSet { bits: BitSet([kani::any(), kani::any()]) }
    }

    /// C04: ByteSet::add sets exactly one member; contains reads it back; frame: no other byte.
    /// Loop-free over all 2^256 sets and all bytes: complete.
    #[kani::proof]
    fn byteset_add_contains() {
        let mut s = any_byteset();
        let old = s;
        let b: u8 = kani::any();
        let other: u8 = kani::any();
        kani::assume(other != b);
        s.add(b);
        assert!(s.contains(b));
        assert!(s.contains(other) == old.contains(other));
        kani::cover!(b >= 128 && old.contains(b));
        kani::cover!(b < 128 && !old.contains(b));
    }

    /// C04: ByteClassSet::set_range(start,end) marks exactly start-1 (if any) and end.
    #[kani::proof]
    fn set_range_marks_boundaries() {
        let mut cs = ByteClassSet(any_byteset());
        let old = cs.0;
        let (start, end): (u8, u8) = (kani::any(), kani::any());
        kani::assume(start <= end);
        let other: u8 = kani::any();
        cs.set_range(start, end);
        assert!(cs.0.contains(end));
        if start > 0 {
            assert!(cs.0.contains(start - 1));
        }
        if other != end && !(start > 0 && other == start - 1) {
            assert!(cs.0.contains(other) == old.contains(other));
        }
        kani::cover!(start == 0);
        kani::cover!(start > 0 && start == end);
    }

    /// C04: byte_classes turns the boundary set into classes: class(0) = 0; class(b+1) =
    /// class(b) + 1 iff b is marked, else equal — hence monotone with steps of at most one, and a
    /// byte whose both boundaries are marked is alone in its class.  The loop runs 256 times
    /// (unwind 257, unwinding assertions on): complete for all 2^256 sets.
    #[kani::proof]
    #[kani::unwind(257)]
    fn byte_classes_from_boundaries() {
        let cs = ByteClassSet(any_byteset());
        let classes = cs.byte_classes();
        assert!(classes.get(0) == 0);
        let b: u8 = kani::any();
        kani::assume(b < 255);
        let (c0, c1) = (classes.get(b), classes.get(b + 1));
        if cs.0.contains(b) {
            assert!(c1 as u16 == c0 as u16 + 1);
        } else {
            assert!(c1 == c0);
        }
        // alphabet_len is the last class + 1
        assert!(classes.alphabet_len() == classes.get(255) as usize + 1);
        kani::cover!(cs.0.contains(b));
        kani::cover!(!cs.0.contains(b));
    }

    /// C04: ByteClasses::{set,get} are inverse with a frame; stride2/stride: stride is the
    /// smallest power of two >= alphabet_len (DFA row width).  Loop-free: complete.
    #[kani::proof]
    fn byte_classes_accessors() {
        let mut c = ByteClasses([0; 256]);
        let last: u8 = kani::any();
        c.set(255, last);
        let (b, v, other): (u8, u8, u8) = (kani::any(), kani::any(), kani::any());
        kani::assume(other != b && b != 255 && other != 255);
        c.set(b, v);
        assert!(c.get(b) == v);
        assert!(c.get(other) == 0);
        let n = c.alphabet_len();
        assert!(n == last as usize + 1);
        let s = c.stride();
        assert!(s >= n && s.is_power_of_two() && (s == 1 || s / 2 < n));
        assert!(c.stride2() <= 8 && (1usize << c.stride2()) == s);
        kani::cover!(n == 256);
        kani::cover!(n == 1);
        kani::cover!(n == 129);
    }
}
