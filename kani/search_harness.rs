
// ---- appended by /verif/vlib/kani.py ----
#[cfg(kani)]
mod verif_kani_search {
    use super::*;

    /// C10: Input::set_span accepts every span with end <= len and start <= end + 1 (and stores
    /// it unchanged); `is_done` iff start > end.  Symbolic start/end over all usize; haystack
    /// length symbolic up to 8 (the condition depends on the length only): bounded by that length.
    #[kani::proof]
    fn set_span_accepts_valid() {
        let hay = [0u8; 8];
        let len: usize = kani::any();
        kani::assume(len <= 8);
        let mut input = Input::new(&hay[..len]);
        let (start, end): (usize, usize) = (kani::any(), kani::any());
        kani::assume(end <= len && start <= end + 1);
        input.set_span(Span { start, end });
        assert!(input.start() == start && input.end() == end);
        assert!(input.is_done() == (start > end));
        assert!(input.haystack().len() == len);
        kani::cover!(start == end + 1);
        kani::cover!(start == 0 && end == len && len == 8);
    }

    /// C10: ... and panics on every other span.
    #[kani::proof]
    #[kani::should_panic]
    fn set_span_rejects_invalid() {
        let hay = [0u8; 8];
        let len: usize = kani::any();
        kani::assume(len <= 8);
        let mut input = Input::new(&hay[..len]);
        let (start, end): (usize, usize) = (kani::any(), kani::any());
        kani::assume(!(end <= len && start <= end.wrapping_add(1)));
        input.set_span(Span { start, end });
    }

    /// C15: Match::new asserts start <= end; Match accessors; Span::len/is_empty/contains.
    #[kani::proof]
    fn match_and_span_accessors() {
        let (start, end): (usize, usize) = (kani::any(), kani::any());
        kani::assume(start <= end);
        let m = Match::new(PatternID::ZERO, start..end);
        assert!(m.start() == start && m.end() == end && m.len() == end - start);
        assert!(m.is_empty() == (start == end));
        let sp = Span { start, end };
        assert!(sp.len() == end - start && sp.is_empty() == (start >= end));
        kani::cover!(start == end);
        kani::cover!(start < end);
    }

    #[kani::proof]
    #[kani::should_panic]
    fn match_new_rejects_inverted_span() {
        let (start, end): (usize, usize) = (kani::any(), kani::any());
        kani::assume(start > end);
        let _ = Match::new(PatternID::ZERO, start..end);
    }
    /// C10: Input::set_range / range turn every kind of range bound into the half-open span with
    /// the same meaning (`a..=b` is `a..b+1`, `..` is the whole haystack), and set_end / span /
    /// set_start store what they are given.
    #[kani::proof]
    fn set_range_means_the_same_half_open_span() {
        use core::ops::Bound;
        let hay = [0u8; 8];
        let len: usize = kani::any();
        kani::assume(len <= 8);
        let (a, b): (usize, usize) = (kani::any(), kani::any());
        let sb: u8 = kani::any();
        let eb: u8 = kani::any();
        kani::assume(sb < 3 && eb < 3);
        let start_bound = match sb { 0 => Bound::Included(a), 1 => Bound::Excluded(a), _ => Bound::Unbounded };
        let end_bound = match eb { 0 => Bound::Included(b), 1 => Bound::Excluded(b), _ => Bound::Unbounded };
        // the mathematical meaning of the bounds
        kani::assume(a < usize::MAX && b < usize::MAX);
        let start = match sb { 0 => a, 1 => a + 1, _ => 0 };
        let end = match eb { 0 => b + 1, 1 => b, _ => len };
        kani::assume(end <= len && start <= end + 1);
        // the input may already carry a narrower span: a range replaces it, open sides included
        let (s0, e0): (usize, usize) = (kani::any(), kani::any());
        kani::assume(e0 <= len && s0 <= e0 + 1);
        let mut input = Input::new(&hay[..len]).span(s0..e0);
        input.set_range((start_bound, end_bound));
        assert!(input.start() == start && input.end() == end);
        let input2 = Input::new(&hay[..len]).span(s0..e0).range((start_bound, end_bound));
        assert!(input2.get_span() == Span { start, end });
        let input3 = Input::new(&hay[..len]).span(start..end);
        assert!(input3.get_span() == Span { start, end } && input3.get_range() == (start..end));
        kani::cover!(eb == 0 && b + 1 == len);
        kani::cover!(sb == 1 && eb == 2);
        kani::cover!(sb == 2 && eb == 0 && b == 0);
    }

    /// set_start / set_end change one bound only
    #[kani::proof]
    fn set_start_set_end_change_one_bound() {
        let hay = [0u8; 8];
        let len: usize = kani::any();
        kani::assume(len <= 8);
        let (s0, e0, s1, e1): (usize, usize, usize, usize) = (kani::any(), kani::any(), kani::any(), kani::any());
        kani::assume(e0 <= len && s0 <= e0 + 1 && s1 <= e0 + 1 && e1 <= len && s1 <= e1 + 1);
        let mut input = Input::new(&hay[..len]).span(s0..e0);
        input.set_start(s1);
        assert!(input.start() == s1 && input.end() == e0);
        input.set_end(e1);
        assert!(input.start() == s1 && input.end() == e1);
        kani::cover!(s1 == e1 + 1);
    }
}
