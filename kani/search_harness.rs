
// ---- appended by /verif/vlib/kani.py ----
#[cfg(kani)]
mod verif_kani_search {
    use super::*;

    /// C10: Input::set_span accepts every span with end <= len and start <= end + 1 (and stores
    /// it unchanged); `is_done` iff start > end.  Symbolic start/end over all usize; haystack
    /// length symbolic up to 8 (the condition depends on the length only): bounded by that length.
    #[kani::proof]
    fn set_span_accepts_valid() {
        let hay = [0u8; 8];
        let len: usize = kani::any();
        kani::assume(len <= 8);
        let mut input = Input::new(&hay[..len]);
        let (start, end): (usize, usize) = (kani::any(), kani::any());
        kani::assume(end <= len && start <= end + 1);
        input.set_span(Span { start, end });
        assert!(input.start() == start && input.end() == end);
        assert!(input.is_done() == (start > end));
        assert!(input.haystack().len() == len);
        kani::cover!(start == end + 1);
        kani::cover!(start == 0 && end == len && len == 8);
    }

    /// C10: ... and panics on every other span.
    #[kani::proof]
    #[kani::should_panic]
    fn set_span_rejects_invalid() {
        let hay = [0u8; 8];
        let len: usize = kani::any();
        kani::assume(len <= 8);
        let mut input = Input::new(&hay[..len]);
        let (start, end): (usize, usize) = (kani::any(), kani::any());
        kani::assume(!(end <= len && start <= end.wrapping_add(1)));
        input.set_span(Span { start, end });
    }

    /// C15: Match::new asserts start <= end; Match accessors; Span::len/is_empty/contains.
    #[kani::proof]
    fn match_and_span_accessors() {
        let (start, end): (usize, usize) = (kani::any(), kani::any());
        kani::assume(start <= end);
        let m = Match::new(PatternID::ZERO, start..end);
        assert!(m.start() == start && m.end() == end && m.len() == end - start);
        assert!(m.is_empty() == (start == end));
        let sp = Span { start, end };
        assert!(sp.len() == end - start && sp.is_empty() == (start >= end));
        kani::cover!(start == end);
        kani::cover!(start < end);
    }

    #[kani::proof]
    #[kani::should_panic]
    fn match_new_rejects_inverted_span() {
        let (start, end): (usize, usize) = (kani::any(), kani::any());
        kani::assume(start > end);
        let _ = Match::new(PatternID::ZERO, start..end);
    }
}
