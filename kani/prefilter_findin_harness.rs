
// ---- appended by /verif/vlib/kani.py (group prefilter_findin, memchr replaced by its spec crate) ----
#[cfg(kani)]
mod verif_kani_prefilter_findin {
    use super::*;

    const N: usize = 4;

    struct Hay {
        buf: [u8; N],
        len: usize,
    }
    impl Hay {
        fn get(&self) -> &[u8] {
            &self.buf[..self.len]
        }
    }

    fn any_hay() -> (Hay, Span) {
        let len: usize = kani::any();
        kani::assume(len <= N);
        let buf: [u8; N] = kani::any();
        let (s, e): (usize, usize) = (kani::any(), kani::any());
        kani::assume(s <= e && e <= len);
        (Hay { buf, len }, Span { start: s, end: e })
    }

    fn first(h: &[u8], sp: Span, f: impl Fn(u8) -> bool) -> Option<usize> {
        let mut i = sp.start;
        while i < sp.end {
            if f(h[i]) {
                return Some(i);
            }
            i += 1;
        }
        None
    }

    /// C05/C10: rare-byte prefilters look only at haystack[span], report absolute offsets, and
    /// back up by exactly the recorded maximum offset of the byte found, never before span.start.
    #[kani::proof]
    #[kani::unwind(6)]
    fn rare_bytes_one_find_in() {
        let (hay, sp) = any_hay();
        let h = hay.get();
        let p = RareBytesOne { byte1: kani::any(), offset: RareByteOffset { max: kani::any() } };
        let want = first(h, sp, |b| b == p.byte1);
        match p.find_in(h, sp) {
            Candidate::None => assert!(want.is_none()),
            Candidate::PossibleStartOfMatch(k) => {
                let pos = want.unwrap();
                let back = pos.saturating_sub(p.offset.max as usize);
                assert!(k == if back > sp.start { back } else { sp.start });
                assert!(sp.start <= k && k <= pos && pos < sp.end);
            }
            Candidate::Match(_) => assert!(false),
        }
        kani::cover!(want.is_some() && want.unwrap() > sp.start && p.offset.max > 0);
        kani::cover!(want.is_none() && sp.start < sp.end);
    }

    #[kani::proof]
    #[kani::unwind(6)]
    fn rare_bytes_two_find_in() {
        let (hay, sp) = any_hay();
        let h = hay.get();
        let mut offsets = RareByteOffsets::empty();
        let (b1, b2): (u8, u8) = (kani::any(), kani::any());
        offsets.set[b1 as usize].max = kani::any();
        offsets.set[b2 as usize].max = kani::any();
        let p = RareBytesTwo { offsets, byte1: b1, byte2: b2 };
        let want = first(h, sp, |b| b == b1 || b == b2);
        match p.find_in(h, sp) {
            Candidate::None => assert!(want.is_none()),
            Candidate::PossibleStartOfMatch(k) => {
                let pos = want.unwrap();
                let back = pos.saturating_sub(offsets.set[h[pos] as usize].max as usize);
                assert!(k == if back > sp.start { back } else { sp.start });
                assert!(sp.start <= k && k <= pos && pos < sp.end);
            }
            Candidate::Match(_) => assert!(false),
        }
        kani::cover!(want.is_some() && h[want.unwrap()] == b2 && b1 != b2);
    }

    #[kani::proof]
    #[kani::unwind(6)]
    fn rare_bytes_three_find_in() {
        let (hay, sp) = any_hay();
        let h = hay.get();
        let mut offsets = RareByteOffsets::empty();
        let (b1, b2, b3): (u8, u8, u8) = (kani::any(), kani::any(), kani::any());
        offsets.set[b1 as usize].max = kani::any();
        offsets.set[b2 as usize].max = kani::any();
        offsets.set[b3 as usize].max = kani::any();
        let p = RareBytesThree { offsets, byte1: b1, byte2: b2, byte3: b3 };
        let want = first(h, sp, |b| b == b1 || b == b2 || b == b3);
        match p.find_in(h, sp) {
            Candidate::None => assert!(want.is_none()),
            Candidate::PossibleStartOfMatch(k) => {
                let pos = want.unwrap();
                let back = pos.saturating_sub(offsets.set[h[pos] as usize].max as usize);
                assert!(k == if back > sp.start { back } else { sp.start });
                assert!(sp.start <= k && k <= pos && pos < sp.end);
            }
            Candidate::Match(_) => assert!(false),
        }
        kani::cover!(want.is_some() && h[want.unwrap()] == b3 && b1 != b3 && b2 != b3);
    }

    /// C05/C10: start-byte prefilters report exactly the first position of any start byte.
    fn check_start(got: Candidate, want: Option<usize>) {
        match got {
            Candidate::None => assert!(want.is_none()),
            Candidate::PossibleStartOfMatch(k) => assert!(Some(k) == want),
            Candidate::Match(_) => assert!(false),
        }
    }

    #[kani::proof]
    #[kani::unwind(6)]
    fn start_bytes_one_find_in() {
        let (hay, sp) = any_hay();
        let h = hay.get();
        let b1: u8 = kani::any();
        let want = first(h, sp, |b| b == b1);
        check_start(StartBytesOne { byte1: b1 }.find_in(h, sp), want);
        kani::cover!(want.is_some() && want.unwrap() > sp.start);
        kani::cover!(want.is_none() && sp.start < sp.end);
    }

    #[kani::proof]
    #[kani::unwind(6)]
    fn start_bytes_two_find_in() {
        let (hay, sp) = any_hay();
        let h = hay.get();
        let (b1, b2): (u8, u8) = (kani::any(), kani::any());
        let want = first(h, sp, |b| b == b1 || b == b2);
        check_start(StartBytesTwo { byte1: b1, byte2: b2 }.find_in(h, sp), want);
        kani::cover!(want.is_some() && h[want.unwrap()] == b2 && b1 != b2);
    }

    #[kani::proof]
    #[kani::unwind(6)]
    fn start_bytes_three_find_in() {
        let (hay, sp) = any_hay();
        let h = hay.get();
        let (b1, b2, b3): (u8, u8, u8) = (kani::any(), kani::any(), kani::any());
        let want = first(h, sp, |b| b == b1 || b == b2 || b == b3);
        check_start(StartBytesThree { byte1: b1, byte2: b2, byte3: b3 }.find_in(h, sp), want);
        kani::cover!(want.is_some() && h[want.unwrap()] == b3 && b1 != b3 && b2 != b3);
    }
}

// ---- builders -> prefilter (appended to the same file as the find_in harnesses) ----
#[cfg(kani)]
mod verif_kani_prefilter_build {
    use super::*;

    /// C05/C02/C11: whatever `StartBytesBuilder::build` decides (a prefilter or none), a prefilter
    /// it returns never says `None` on a haystack that starts with the first byte of an added
    /// pattern (or, under ASCII case folding, with its other-case twin).
    #[kani::proof]
    #[kani::unwind(258)]
    fn start_bytes_build_never_hides_a_first_byte() {
        let ci: bool = kani::any();
        let mut b = StartBytesBuilder::new().ascii_case_insensitive(ci);
        let p1: [u8; 1] = kani::any();
        let p2: [u8; 2] = kani::any();
        b.add(&p1);
        b.add(&p2);
        if let Some(pre) = b.build() {
            let pick: bool = kani::any();
            let twin: bool = kani::any();
            let first = if pick { p1[0] } else { p2[0] };
            let byte = if twin && ci { opposite_ascii_case(first) } else { first };
            let hay = [b'~', byte];
            kani::assume(first != b'~' && opposite_ascii_case(first) != b'~');
            let other = if pick { p2[0] } else { p1[0] };
            kani::assume(other != b'~' && opposite_ascii_case(other) != b'~');
            match pre.find_in(&hay, Span { start: 0, end: 2 }) {
                Candidate::None => assert!(false),
                Candidate::PossibleStartOfMatch(i) => assert!(i <= 1),
                Candidate::Match(_) => assert!(false),
            }
        }
        kani::cover!(ci && p1[0] == b'q');
        kani::cover!(p1[0] >= 0x80);
    }
}
