
// ---- appended by /verif/vlib/kani.py ----
#[cfg(kani)]
mod verif_kani_primitives {
    use super::*;

    /// C20: identifier constructors fail exactly above their limit (a BuildError upstream, never
    /// a panic) and round-trip the value.  Loop-free over all usize: complete.
    #[kani::proof]
    fn small_index_new_limit() {
        let n: usize = kani::any();
        match SmallIndex::new(n) {
            Ok(i) => assert!(n <= SmallIndex::MAX.as_usize() && i.as_usize() == n),
            Err(_) => assert!(n > SmallIndex::MAX.as_usize()),
        }
        assert!(SmallIndex::MAX.as_usize() == (i32::MAX as usize) - 1);
        kani::cover!(n == SmallIndex::MAX.as_usize());
        kani::cover!(n == SmallIndex::MAX.as_usize() + 1);
    }

    #[kani::proof]
    fn state_id_new_limit() {
        let n: usize = kani::any();
        match StateID::new(n) {
            Ok(i) => assert!(n <= StateID::MAX.as_usize() && i.as_usize() == n && i.as_u32() as usize == n),
            Err(_) => assert!(n > StateID::MAX.as_usize()),
        }
        kani::cover!(n == StateID::MAX.as_usize());
        kani::cover!(n > StateID::MAX.as_usize());
    }

    #[kani::proof]
    fn pattern_id_new_limit() {
        let n: usize = kani::any();
        match PatternID::new(n) {
            Ok(i) => assert!(n <= PatternID::MAX.as_usize() && i.as_usize() == n),
            Err(_) => assert!(n > PatternID::MAX.as_usize()),
        }
        kani::cover!(n == 0);
        kani::cover!(n > PatternID::MAX.as_usize());
    }
}
