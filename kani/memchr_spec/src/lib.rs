//! Specification of the parts of `memchr` that aho-corasick calls: the index of the first
//! occurrence.  Written as plain loops so that CBMC can execute them.
#![no_std]
extern crate alloc;

pub fn memchr(n1: u8, haystack: &[u8]) -> Option<usize> {
    let mut i = 0;
    while i < haystack.len() {
        if haystack[i] == n1 {
            return Some(i);
        }
        i += 1;
    }
    None
}

pub fn memchr2(n1: u8, n2: u8, haystack: &[u8]) -> Option<usize> {
    let mut i = 0;
    while i < haystack.len() {
        if haystack[i] == n1 || haystack[i] == n2 {
            return Some(i);
        }
        i += 1;
    }
    None
}

pub fn memchr3(n1: u8, n2: u8, n3: u8, haystack: &[u8]) -> Option<usize> {
    let mut i = 0;
    while i < haystack.len() {
        if haystack[i] == n1 || haystack[i] == n2 || haystack[i] == n3 {
            return Some(i);
        }
        i += 1;
    }
    None
}

pub mod memmem {
    use alloc::vec::Vec;

    #[derive(Clone, Debug)]
    pub struct Finder<'n> {
        needle: Vec<u8>,
        _m: core::marker::PhantomData<&'n ()>,
    }

    impl<'n> Finder<'n> {
        pub fn new<B: ?Sized + AsRef<[u8]>>(needle: &'n B) -> Finder<'n> {
            Finder { needle: needle.as_ref().to_vec(), _m: core::marker::PhantomData }
        }
        pub fn into_owned(self) -> Finder<'static> {
            Finder { needle: self.needle, _m: core::marker::PhantomData }
        }
        pub fn needle(&self) -> &[u8] {
            &self.needle
        }
        /// first index at which the needle occurs
        pub fn find(&self, haystack: &[u8]) -> Option<usize> {
            let n = self.needle.len();
            if n > haystack.len() {
                return None;
            }
            let mut i = 0;
            while i + n <= haystack.len() {
                let mut j = 0;
                let mut ok = true;
                while j < n {
                    if haystack[i + j] != self.needle[j] {
                        ok = false;
                        break;
                    }
                    j += 1;
                }
                if ok {
                    return Some(i);
                }
                i += 1;
            }
            None
        }
    }
}
