
// ---- appended by /verif/vlib/kani.py: constructor for the private generic::Match (harness use only) ----
#[cfg(kani)]
pub(crate) fn verif_kani_mk_match(pid: PatternID, start: *const u8, end: *const u8) -> Match {
    Match { pid, start, end }
}
