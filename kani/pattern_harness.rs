
// ---- appended by /verif/vlib/kani.py ----
#[cfg(kani)]
mod verif_kani_pattern {
    use super::*;

    /// exactly-sized objects (one array object each), so CBMC's pointer checks flag every read
    /// beyond N bytes — stricter than a guard page
    fn check_eq<const N: usize>() {
        let x: [u8; N] = kani::any();
        let y: [u8; N] = kani::any();
        let got = unsafe { is_equal_raw(x.as_ptr(), y.as_ptr(), N) };
        assert!(got == (x == y));
    }

    /// C15/C06: is_equal_raw(x, y, n) reads exactly n bytes of each and equals slice equality;
    /// n = 0..=3 (special cases), 4 (single load), 5..=9 (4k + r with the overlapping tail load).
    #[kani::proof]
    #[kani::unwind(6)]
    fn is_equal_raw_is_slice_eq_small() {
        check_eq::<0>();
        check_eq::<1>();
        check_eq::<2>();
        check_eq::<3>();
        check_eq::<4>();
    }

    #[kani::proof]
    #[kani::unwind(11)]
    fn is_equal_raw_is_slice_eq_tail() {
        check_eq::<5>();
        check_eq::<7>();
        check_eq::<8>();
        check_eq::<9>();
    }

    /// longer needles (an implementation may switch to wider loads above some length): the
    /// comparison must still look at every byte
    #[kani::proof]
    #[kani::unwind(34)]
    fn is_equal_raw_is_slice_eq_long() {
        check_eq::<16>();
        check_eq::<22>();
        check_eq::<24>();
        check_eq::<29>();
        check_eq::<32>();
    }

    fn check_eq_at<const N: usize, const B: usize>() {
        let xb: [u8; B] = kani::any();
        let yb: [u8; B] = kani::any();
        let k: usize = kani::any();
        kani::assume(k <= B - N);
        let x = &xb[k..k + N];
        let got = unsafe { is_equal_raw(x.as_ptr(), yb.as_ptr(), N) };
        let mut want = true;
        let mut i = 0;
        while i < N {
            if x[i] != yb[i] {
                want = false;
            }
            i += 1;
        }
        assert!(got == want);
    }

    /// the result does not depend on where the haystack bytes lie in memory (every offset of
    /// the compared window in its object, i.e. every alignment class), also for needles of 64
    /// bytes and more
    #[kani::proof]
    #[kani::unwind(71)]
    fn is_equal_raw_ignores_alignment() {
        check_eq_at::<12, 20>();
        check_eq_at::<64, 72>();
        check_eq_at::<69, 77>();
    }

    fn check_prefix<const H: usize, const P: usize>() {
        let h: [u8; H] = kani::any();
        let p: [u8; P] = kani::any();
        let got = is_prefix(&h, &p);
        let mut want = P <= H;
        let mut i = 0;
        while i < P && i < H {
            if h[i] != p[i] {
                want = false;
            }
            i += 1;
        }
        assert!(got == want);
    }

    /// C15/C06: is_prefix(haystack, needle) never reads past either slice and equals
    /// starts_with — also when the needle is longer than the haystack.
    #[kani::proof]
    #[kani::unwind(8)]
    fn is_prefix_is_starts_with() {
        check_prefix::<0, 0>();
        check_prefix::<0, 2>();
        check_prefix::<2, 3>();
        check_prefix::<3, 3>();
        check_prefix::<5, 2>();
        check_prefix::<6, 5>();
        check_prefix::<7, 7>();
    }
}
