
// ---- appended by /verif/vlib/kani.py ----
#[cfg(kani)]
mod verif_kani_pattern {
    use super::*;

    const N: usize = 9;

    /// exactly-sized heap allocation with symbolic content, so that CBMC's pointer checks flag
    /// every read beyond `len` bytes (stricter than a guard page)
    fn exact(len: usize) -> Vec<u8> {
        let mut v = Vec::with_capacity(len);
        let mut i = 0;
        while i < len {
            v.push(kani::any());
            i += 1;
        }
        v
    }

    /// C15/C06: is_equal_raw(x, y, n) reads exactly n bytes of each and equals slice equality;
    /// covers the n < 4 special cases, n == 4, and the 4k + r tail-overlap path.
    #[kani::proof]
    #[kani::unwind(11)]
    fn is_equal_raw_is_slice_eq() {
        let n: usize = kani::any();
        kani::assume(n <= N);
        let x = exact(n);
        let y = exact(n);
        let got = unsafe { is_equal_raw(x.as_ptr(), y.as_ptr(), n) };
        let mut want = true;
        let mut i = 0;
        while i < n {
            if x[i] != y[i] {
                want = false;
            }
            i += 1;
        }
        assert!(got == want);
        kani::cover!(n == 3 && want);
        kani::cover!(n == 7 && !want);
        kani::cover!(n == 9 && want);
    }

    /// C15/C06: is_prefix(haystack, needle) never reads past either slice and equals
    /// `haystack.starts_with(needle)` — also when the needle is longer than the haystack.
    #[kani::proof]
    #[kani::unwind(11)]
    fn is_prefix_is_starts_with() {
        let (hn, nn): (usize, usize) = (kani::any(), kani::any());
        kani::assume(hn <= N && nn <= N);
        let h = exact(hn);
        let nd = exact(nn);
        let got = is_prefix(&h, &nd);
        let mut want = nn <= hn;
        let mut i = 0;
        while i < nn && i < hn {
            if h[i] != nd[i] {
                want = false;
            }
            i += 1;
        }
        assert!(got == want);
        kani::cover!(nn > hn);
        kani::cover!(nn == hn && want && nn == 5);
        kani::cover!(nn < hn && want && nn == 2);
    }
}
