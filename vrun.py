#!/usr/bin/env python3
"""Developer helper: generate + verify one unit and print a summary."""
import sys, json
from vlib import verus
r = verus.run(sys.argv[1], tier='thorough' if '--nocache' in sys.argv else 'quick')
print('status', r['status'], 'verified', r.get('verified'), 'errors', r.get('errors'), 'wall', round(r['wall_s'],1), r.get('detail',''))
for f in r.get('failures', []):
    print('  [%s] %s @gen:%s fn=%s :: %s' % (f['class'], f['msg'], f['gen_line'], f['function'], f['snippet']))
if r['status'] in ('tool_error',) or '-v' in sys.argv:
    print(r.get('stderr_tail',''))
print('trusted', r.get('trusted'))
